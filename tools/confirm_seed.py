"""Confirm an agent-written change: python tools/confirm_seed.py <id> <agent-worktree> <demo-file> <breaks,comma> [--skip-tests]
 - saves `git diff --binary` of the agent worktree as seeded/<id>/patch.diff and the demo
 - in a fresh scratch worktree of /repo HEAD: demo must pass without and fail with the patch
 - the pinned test files must give the same 241 passes with the patch
Writes seeded/<id>/confirm.json."""
import json, os, shutil, subprocess, sys, time
import xml.etree.ElementTree as ET
mid, awt, demo, breaks = sys.argv[1:5]
skip = "--skip-tests" in sys.argv
V = "/verif"; d = V + "/seeded/" + mid
os.makedirs(d, exist_ok=True)
diff = subprocess.run(["git", "-C", awt, "diff", "--binary"], stdout=subprocess.PIPE, check=True).stdout
open(d + "/patch.diff", "wb").write(diff)
shutil.copy(os.path.join(awt, demo), d + "/" + demo)
wt = "/tmp/wavesim-confirm/" + mid
subprocess.run(["git", "-C", "/repo", "worktree", "remove", "--force", wt], stdout=subprocess.DEVNULL, stderr=subprocess.DEVNULL)
os.makedirs("/tmp/wavesim-confirm", exist_ok=True)
subprocess.run(["git", "-C", "/repo", "worktree", "add", "-q", "--detach", wt, "HEAD"], check=True)
env = dict(os.environ, PYTHONPATH=wt, OMP_NUM_THREADS="1", PYTHONWARNINGS="ignore", PYTHONDONTWRITEBYTECODE="1")
out = {"id": mid}
def run_demo():
    shutil.copy(d + "/" + demo, wt + "/" + demo)
    p = subprocess.run(["/venv/bin/python", demo], cwd=wt, env=env, stdout=subprocess.PIPE, stderr=subprocess.STDOUT, timeout=900)
    os.remove(wt + "/" + demo)
    return p.returncode, p.stdout.decode("utf8", "replace")[-600:]
try:
    rc0, o0 = run_demo()
    out["demo_without_patch"] = {"exit": rc0, "tail": o0}
    subprocess.run(["git", "-C", wt, "apply", d + "/patch.diff"], check=True)
    chk = subprocess.run(["/venv/bin/python", "-c", "import pytorch_wavelets; print(pytorch_wavelets.__file__)"], cwd=wt, env=env, stdout=subprocess.PIPE).stdout.decode().strip()
    out["imports_from"] = chk
    rc1, o1 = run_demo()
    out["demo_with_patch"] = {"exit": rc1, "tail": o1}
    if not skip:
        t = time.time()
        jx = "/tmp/wavesim-confirm/%s.junit.xml" % mid
        p = subprocess.run(["/venv/bin/python", "-m", "pytest", "-q", "-p", "no:cacheprovider", "--timeout=900",
                            "tests/test_dwt.py", "tests/test_dwt1d.py", "tests/test_dtcwt.py", "tests/test_scatnet_fwd.py",
                            "-n", "6", "--junitxml=" + jx], cwd=wt, env=env, stdout=subprocess.PIPE, stderr=subprocess.STDOUT)
        passed = set()
        for tc in ET.parse(jx).getroot().iter("testcase"):
            if not any(c.tag in ("failure", "error", "skipped") for c in tc):
                passed.add(tc.get("classname") + "::" + tc.get("name"))
        base = set(json.load(open("/root/.vp/BASELINE.json"))["stable_pass"])
        out["tests"] = {"passed": len(passed), "baseline": len(base), "baseline_missing": sorted(base - passed),
                        "wall_s": round(time.time() - t), "summary": p.stdout.decode("utf8", "replace").strip().splitlines()[-1]}
        os.remove(jx)
    out["confirmed"] = (rc0 == 0 and rc1 != 0 and (skip or not out["tests"]["baseline_missing"]))
finally:
    subprocess.run(["git", "-C", "/repo", "worktree", "remove", "--force", wt])
json.dump(out, open(d + "/confirm.json", "w"), indent=1)
print(json.dumps({k: v for k, v in out.items() if k != "demo_with_patch" and k != "demo_without_patch"}), out.get("demo_with_patch", {}).get("exit"), out.get("demo_without_patch", {}).get("exit"))
