"""Sensitivity / false-alarm experiments: apply each seeded/<id>/patch.diff to
a scratch worktree of /repo (under /tmp/wavesim-mut, removed afterwards) and run
the quick checks against it via WAVESIM_REPO.  Writes out/sensitivity.json and
prints a table.   Usage: python tools/sens.py [--runs N] [id ...]"""
import json, os, shutil, subprocess, sys, time
V = os.path.dirname(os.path.dirname(os.path.abspath(__file__)))   # the checkout this script lives in (a `vp run` snapshot works too)
ROOT = "/tmp/wavesim-mut"
args = sys.argv[1:]
runs = None
if "--runs" in args:
    i = args.index("--runs"); runs = args[i + 1]; del args[i:i + 2]
ids = args or sorted(d for d in os.listdir(V + "/seeded") if os.path.exists(V + "/seeded/%s/patch.diff" % d))
results = {}
if os.path.exists(V + "/out/sensitivity.json"):
    results = json.load(open(V + "/out/sensitivity.json"))
os.makedirs(ROOT, exist_ok=True)
for mid in ids:
    meta = json.load(open(V + "/seeded/%s/meta.json" % mid))
    wt = os.path.join(ROOT, mid)
    subprocess.run(["git", "-C", "/repo", "worktree", "remove", "--force", wt], stdout=subprocess.DEVNULL, stderr=subprocess.DEVNULL)
    subprocess.run(["git", "-C", "/repo", "worktree", "add", "-q", "--detach", wt, "HEAD"], check=True)
    try:
        subprocess.run(["git", "-C", wt, "apply", V + "/seeded/%s/patch.diff" % mid], check=True)
        props = meta.get("breaks") or ["C15", "C16", "C18"]
        if meta.get("also_run"):
            props = sorted(set(props) | set(meta["also_run"]))
        res = {}
        for prop in props:
            cmd = ["/venv/bin/python", "-m", "wavesim.run", "check", prop, "--tier", "quick"]
            if runs:
                cmd += ["--runs", runs]
            t = time.time()
            p = subprocess.run(cmd, cwd=V, env=dict(os.environ, WAVESIM_REPO=wt), stdout=subprocess.PIPE, stderr=subprocess.STDOUT)
            out = p.stdout.decode("utf8", "replace")
            viol = [l for l in out.splitlines() if l.startswith("VIOLATION")]
            inv = [l.strip() for l in out.splitlines() if l.strip().startswith("invariant=")]
            res[prop] = {"exit": p.returncode, "violations": len(viol), "first": (inv[0] if inv else ""),
                         "wall_s": round(time.time() - t, 1), "tail": out[-600:] if p.returncode not in (0, 1) else ""}
            print("%-45s %s exit=%d %s %.0fs" % (mid, prop, p.returncode, (inv[0][:110] if inv else ""), time.time() - t))
            sys.stdout.flush()
        results[mid] = {"expected_to_break": meta.get("breaks", []), "result": res}
    finally:
        subprocess.run(["git", "-C", "/repo", "worktree", "remove", "--force", wt])
        shutil.rmtree(V + "/out/scratch-" + mid, ignore_errors=True)
    json.dump(results, open(V + "/out/sensitivity.json", "w"), indent=1, sort_keys=True)
try:
    os.rmdir(ROOT)
except OSError:
    pass
