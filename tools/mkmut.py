"""Create my own sensitivity mutants as patch files under /verif/seeded/own-*/.
Usage: python tools/mkmut.py   (uses a scratch worktree /tmp/wt/own)"""
import json, os, subprocess, sys
WT = "/tmp/wt/own"
def sh(*a, **k):
    return subprocess.run(a, check=True, stdout=subprocess.PIPE, stderr=subprocess.STDOUT, **k).stdout.decode()
if not os.path.isdir(WT):
    sh("git", "-C", "/repo", "worktree", "add", "-q", "--detach", WT, "HEAD")
MUTS = []
def mut(name, breaks, needs, edits):
    MUTS.append((name, breaks, needs, edits))

mut("own-M1-filter-cache-keyed-by-length", ["C15"],
    "two module instances with different wavelets of the same filter length and channel count used in one process (the second silently uses the first one's stacked filters)",
    [("pytorch_wavelets/dwt/lowlevel.py",
      "    h = torch.cat([h0, h1] * C, dim=0)\n\n    if mode == 'per' or mode == 'periodization':\n        if x.shape[dim] % 2 == 1:",
      "    key = (L, C, d, h0.dtype)\n    h = _STACKED.get(key)\n    if h is None:\n        h = _STACKED[key] = torch.cat([h0, h1] * C, dim=0)\n\n    if mode == 'per' or mode == 'periodization':\n        if x.shape[dim] % 2 == 1:"),
     ("pytorch_wavelets/dwt/lowlevel.py", "def roll(x, n, dim, make_even=False):", "_STACKED = {}\n\n\ndef roll(x, n, dim, make_even=False):")])

mut("own-M2-ctx-shape-on-class", ["C15"],
    "forward of an odd-sized input A, then forward of another size B (same or another instance/thread), then backward of A: the crop uses B's shape",
    [("pytorch_wavelets/dwt/lowlevel.py", "        ctx.save_for_backward(h0_row, h1_row, h0_col, h1_col)\n        ctx.shape = x.shape[-2:]\n        mode = int_to_mode(mode)\n        ctx.mode = mode\n        lohi = afb1d(x, h0_row, h1_row, mode=mode, dim=3)",
      "        ctx.save_for_backward(h0_row, h1_row, h0_col, h1_col)\n        AFB2D.shape = x.shape[-2:]\n        mode = int_to_mode(mode)\n        ctx.mode = mode\n        lohi = afb1d(x, h0_row, h1_row, mode=mode, dim=3)"),
     ("pytorch_wavelets/dwt/lowlevel.py", "            dx = sfb1d(lo, hi, h0_row, h1_row, mode=mode, dim=3)\n            if dx.shape[-2] > ctx.shape[-2] and dx.shape[-1] > ctx.shape[-1]:",
      "            dx = sfb1d(lo, hi, h0_row, h1_row, mode=mode, dim=3)\n            ctx.shape = AFB2D.shape\n            if dx.shape[-2] > ctx.shape[-2] and dx.shape[-1] > ctx.shape[-1]:")])

mut("own-M3-reused-output-buffer", ["C15"],
    "two inverse calls on one DWTInverse instance with equally shaped results: the first result is overwritten by the second (returned tensor aliases a per-module buffer); only under no_grad",
    [("pytorch_wavelets/dwt/transform2d.py", "            ll = lowlevel.SFB2D.apply(\n                ll, h, self.g0_col, self.g1_col, self.g0_row, self.g1_row, mode)\n        return ll",
      "            ll = lowlevel.SFB2D.apply(\n                ll, h, self.g0_col, self.g1_col, self.g0_row, self.g1_row, mode)\n        if not torch.is_grad_enabled() and len(yh) > 0:\n            buf = getattr(self, '_out', None)\n            if buf is None or buf.shape != ll.shape or buf.dtype != ll.dtype:\n                buf = self._out = torch.empty_like(ll)\n            buf.copy_(ll)\n            return buf\n        return ll")])

mut("own-M4-none-level-written-back", ["C15"],
    "an inverse 2-D DWT given a pyramid whose list contains None: the caller's list is modified (None replaced by a zeros tensor)",
    [("pytorch_wavelets/dwt/transform2d.py", "        for h in yh[::-1]:\n            if h is None:\n                h = torch.zeros(ll.shape[0], ll.shape[1], 3, ll.shape[-2],\n                                ll.shape[-1], device=ll.device, dtype=ll.dtype)\n",
      "        for i in range(len(yh) - 1, -1, -1):\n            h = yh[i]\n            if h is None:\n                h = yh[i] = torch.zeros(ll.shape[0], ll.shape[1], 3, ll.shape[-2],\n                                        ll.shape[-1], device=ll.device, dtype=ll.dtype)\n")])

mut("own-M6-default-dtype-flip-no-finally", ["C15"],
    "an exception (OOM / KeyboardInterrupt) between the two set_default_dtype calls inside filter preparation leaks float64 as process default; later constructions differ",
    [("pytorch_wavelets/dwt/lowlevel.py", "    h0 = np.array(h0[::-1]).ravel()\n    h1 = np.array(h1[::-1]).ravel()\n    t = torch.get_default_dtype()\n    h0 = torch.tensor(h0, device=device, dtype=t).reshape((1, 1, -1))\n    h1 = torch.tensor(h1, device=device, dtype=t).reshape((1, 1, -1))\n    return h0, h1",
      "    t = torch.get_default_dtype()\n    torch.set_default_dtype(torch.float64)   # build in full precision, then cast\n    h0 = torch.tensor(np.array(h0[::-1]).ravel(), device=device)\n    h1 = torch.tensor(np.array(h1[::-1]).ravel(), device=device)\n    h0 = h0.reshape((1, 1, -1)).to(t)\n    h1 = h1.reshape((1, 1, -1)).to(t)\n    torch.set_default_dtype(t)\n    return h0, h1")])

mut("own-M7-nograd-fast-path", ["C15"],
    "calling DWT1DForward under no_grad / inference mode with an odd length in periodization mode: the fast path skips the odd-length duplication",
    [("pytorch_wavelets/dwt/transform1d.py", "        for j in range(self.J):\n            x0, x1 = lowlevel.AFB1D.apply(x0, self.h0, self.h1, mode)\n            highs.append(x1)",
      "        for j in range(self.J):\n            if not torch.is_grad_enabled() and x0.shape[-1] % 2 == 1 and mode == 2:\n                # no autograd bookkeeping needed: call the filter bank directly\n                lohi = lowlevel.afb1d(x0[:, :, None, :-1], self.h0[:, :, None, :],\n                                      self.h1[:, :, None, :], mode='periodization', dim=3)\n                x0, x1 = lohi[:, ::2, 0].contiguous(), lohi[:, 1::2, 0].contiguous()\n            else:\n                x0, x1 = lowlevel.AFB1D.apply(x0, self.h0, self.h1, mode)\n            highs.append(x1)")])

mut("own-M8-filters-on-class", ["C15"],
    "constructing a second DTCWTInverse with other level-1 filters changes the behaviour of the first instance (level-1 synthesis filters kept on the class)",
    [("pytorch_wavelets/dtcwt/transform2d.py", "        low = INV_J1.apply(low, highs[0], self.g0o, self.g1o, self.o_dim,\n                           self.ri_dim, mode)",
      "        low = INV_J1.apply(low, highs[0], DTCWTInverse._g0o.to(self.g0o.dtype), DTCWTInverse._g1o.to(self.g1o.dtype), self.o_dim,\n                           self.ri_dim, mode)"),
     ("pytorch_wavelets/dtcwt/transform2d.py", "            self.register_buffer('g0a', prep_filt(qshift[0], 1))\n            self.register_buffer('g0b', prep_filt(qshift[1], 1))\n            self.register_buffer('g1a', prep_filt(qshift[2], 1))\n            self.register_buffer('g1b', prep_filt(qshift[3], 1))\n\n    def forward(self, coeffs):",
      "            self.register_buffer('g0a', prep_filt(qshift[0], 1))\n            self.register_buffer('g0b', prep_filt(qshift[1], 1))\n            self.register_buffer('g1a', prep_filt(qshift[2], 1))\n            self.register_buffer('g1b', prep_filt(qshift[3], 1))\n        DTCWTInverse._g0o = self.g0o\n        DTCWTInverse._g1o = self.g1o\n\n    def forward(self, coeffs):")])

mut("own-M9-publish-before-populate", ["C18", "C15"],
    "two threads loading the same table, the second pre-empted into the middle of the first one's load: it finds the half-filled cache entry and raises ValueError / returns nothing for some keys",
    [("pytorch_wavelets/dtcwt/coeffs.py", "        with resource_stream('pytorch_wavelets.dtcwt.data', basename + '.npz') as f:\n            mat = dict(load(f))\n        COEFF_CACHE[basename] = mat",
      "        mat = COEFF_CACHE[basename] = {}\n        with resource_stream('pytorch_wavelets.dtcwt.data', basename + '.npz') as f:\n            z = load(f)\n            for k in z.files:\n                mat[k] = z[k]")])

mut("own-M10-inplace-flip-of-cached-array", ["C18", "C15"],
    "constructing a second DTCWT/scattering module (or loading again) after a first one: prep_filt reverses the cached table in place, so every other consumer gets time-reversed q-shift filters",
    [("pytorch_wavelets/dtcwt/lowlevel.py", "    h = _as_col_vector(h)[::-1]\n    h = h[None, None, :]",
      "    h = _as_col_vector(h)\n    h[:] = h[::-1].copy()\n    h = h[None, None, :]")])

mut("own-M11-float32-tables", ["C18"],
    "any load: arrays come back as float32 (rounded) instead of the reference float64 values",
    [("pytorch_wavelets/dtcwt/coeffs.py", "            mat = dict(load(f))", "            mat = {k: v.astype('float32') for k, v in dict(load(f)).items()}")])

mut("own-M12-cache-partial-on-error", ["C18"],
    "an I/O error or truncated file in the middle of a load: the keys read so far are cached and returned later; a later fault-free load raises ValueError forever or returns a partial table",
    [("pytorch_wavelets/dtcwt/coeffs.py", "        with resource_stream('pytorch_wavelets.dtcwt.data', basename + '.npz') as f:\n            mat = dict(load(f))\n        COEFF_CACHE[basename] = mat",
      "        mat = {}\n        try:\n            with resource_stream('pytorch_wavelets.dtcwt.data', basename + '.npz') as f:\n                z = load(f)\n                for k in z.files:\n                    mat[k] = z[k]\n        except (OSError, EOFError, ValueError):\n            pass    # keep whatever could be read\n        COEFF_CACHE[basename] = mat")])

mut("own-M13-filter-not-a-buffer", ["C16"],
    "a DWT1DForward converted with .double()/.float() after construction: the highpass filter is a plain attribute, so the conversion misses it and the call raises a dtype error",
    [("pytorch_wavelets/dwt/transform1d.py", "        self.register_buffer('h0', filts[0])\n        self.register_buffer('h1', filts[1])\n        self.J = J",
      "        self.register_buffer('h0', filts[0])\n        self.h1 = filts[1]\n        self.J = J")])

mut("own-M14-dtype-remembered-at-construction", ["C16"],
    "DTCWTForward constructed under float32 then .double(): placeholders for skipped levels are created in the remembered construction dtype",
    [("pytorch_wavelets/dtcwt/transform2d.py", "        scales = [x.new_zeros([]),] * self.J\n        highs = [x.new_zeros([]),] * self.J",
      "        scales = [torch.zeros([], dtype=self._dtype),] * self.J\n        highs = [torch.zeros([], dtype=self._dtype),] * self.J"),
     ("pytorch_wavelets/dtcwt/transform2d.py", "        self.biort = biort\n        self.qshift = qshift\n        self.J = J\n        self.o_dim = o_dim",
      "        self.biort = biort\n        self.qshift = qshift\n        self._dtype = torch.get_default_dtype()\n        self.J = J\n        self.o_dim = o_dim")])

mut("own-M15-symm-pad-memo-bad-key", ["C15"],
    "DTCWT calls with two different (size, filter-length) pairs whose padded length coincides: padding indices memoised by output length only",
    [("pytorch_wavelets/utils.py", "    xe = reflect(np.arange(-m, l+m, dtype='int32'), -0.5, l-0.5)\n    return xe",
      "    key = l + 2*m\n    xe = _PAD.get(key)\n    if xe is None:\n        xe = _PAD[key] = reflect(np.arange(-m, l+m, dtype='int32'), -0.5, l-0.5)\n    return xe"),
     ("pytorch_wavelets/utils.py", "def symm_pad_1d(l, m):", "_PAD = {}\n\n\ndef symm_pad_1d(l, m):")])

mut("own-M16-pad-memo-stashed-on-torch-module", ["C15"],
    "own-M15 (pad indices memoised by padded length only) with the memo table stored as an attribute of the torch module, i.e. outside anything a re-import of the library resets",
    [("pytorch_wavelets/utils.py", "    xe = reflect(np.arange(-m, l+m, dtype='int32'), -0.5, l-0.5)\n    return xe",
      "    import torch\n    memo = torch.__dict__.setdefault('_pw_pad_memo', {})\n    key = l + 2*m\n    xe = memo.get(key)\n    if xe is None:\n        xe = memo[key] = reflect(np.arange(-m, l+m, dtype='int32'), -0.5, l-0.5)\n    return xe")])

mut("own-M17-pad-memo-on-disk", ["C15"],
    "own-M15 with the memo table kept as .npy files in tempfile.gettempdir(): state that survives even a new interpreter",
    [("pytorch_wavelets/utils.py", "    xe = reflect(np.arange(-m, l+m, dtype='int32'), -0.5, l-0.5)\n    return xe",
      "    import os, tempfile\n    path = os.path.join(tempfile.gettempdir(), 'pw_pad_%d.npy' % (l + 2*m))\n    try:\n        return np.load(path)\n    except (OSError, ValueError, EOFError):\n        pass\n    xe = reflect(np.arange(-m, l+m, dtype='int32'), -0.5, l-0.5)\n    try:\n        np.save(path, xe)\n    except OSError:\n        pass\n    return xe")])

mut("own-H1-harmless-lru-cache-correct-key", [],
    "HARMLESS control: padding indices memoised with the complete key (l, m); must NOT alarm",
    [("pytorch_wavelets/utils.py", "    xe = reflect(np.arange(-m, l+m, dtype='int32'), -0.5, l-0.5)\n    return xe",
      "    key = (l, m)\n    xe = _PAD.get(key)\n    if xe is None:\n        xe = _PAD[key] = reflect(np.arange(-m, l+m, dtype='int32'), -0.5, l-0.5)\n    return xe"),
     ("pytorch_wavelets/utils.py", "def symm_pad_1d(l, m):", "_PAD = {}\n\n\ndef symm_pad_1d(l, m):")])

mut("own-H2-harmless-lock-and-copy-out-of-cache", [],
    "HARMLESS control: a lock around the table cache and copies handed out; must NOT alarm",
    [("pytorch_wavelets/dtcwt/coeffs.py", "    try:\n        mat = COEFF_CACHE[basename]\n    except KeyError:\n        with resource_stream('pytorch_wavelets.dtcwt.data', basename + '.npz') as f:\n            mat = dict(load(f))\n        COEFF_CACHE[basename] = mat\n\n    try:\n        return tuple(mat[k] for k in varnames)",
      "    with _LOCK:\n        try:\n            mat = COEFF_CACHE[basename]\n        except KeyError:\n            with resource_stream('pytorch_wavelets.dtcwt.data', basename + '.npz') as f:\n                mat = dict(load(f))\n            COEFF_CACHE[basename] = mat\n\n    try:\n        return tuple(mat[k].copy() for k in varnames)"),
     ("pytorch_wavelets/dtcwt/coeffs.py", "COEFF_CACHE = {}\n", "import threading\nCOEFF_CACHE = {}\n_LOCK = threading.Lock()\n")])

mut("own-H3-harmless-module-attribute-cache", [],
    "HARMLESS control: DWTForward keeps (mode, integer code) as one tuple attribute on the module after the first call (module __dict__ changes, results do not); must NOT alarm. (A first version of this control set two attributes one after the other; the C15/C16 checks rightly reported the race - a second thread saw the first attribute without the second and raised AttributeError.)",
    [("pytorch_wavelets/dwt/transform2d.py", "        yh = []\n        ll = x\n        mode = lowlevel.mode_to_int(self.mode)\n\n        # Do a multilevel transform\n        for j in range(self.J):\n            # Do 1 level of the transform\n            ll, high = lowlevel.AFB2D.apply(",
      "        yh = []\n        ll = x\n        c = getattr(self, '_mode_cache', None)\n        if c is None or c[0] != self.mode:\n            c = self._mode_cache = (self.mode, lowlevel.mode_to_int(self.mode))\n        mode = c[1]\n\n        # Do a multilevel transform\n        for j in range(self.J):\n            # Do 1 level of the transform\n            ll, high = lowlevel.AFB2D.apply(")])

mut("own-H4-harmless-dtype-flip-with-finally", [],
    "HARMLESS control: the default-dtype flip of own-M6 done properly with try/finally; a fault inside the protected block must run the finally clause, so nothing leaks and nothing may alarm",
    [("pytorch_wavelets/dwt/lowlevel.py", "    h0 = np.array(h0[::-1]).ravel()\n    h1 = np.array(h1[::-1]).ravel()\n    t = torch.get_default_dtype()\n    h0 = torch.tensor(h0, device=device, dtype=t).reshape((1, 1, -1))\n    h1 = torch.tensor(h1, device=device, dtype=t).reshape((1, 1, -1))\n    return h0, h1",
      "    t = torch.get_default_dtype()\n    torch.set_default_dtype(torch.float64)   # build in full precision, then cast\n    try:\n        h0 = torch.tensor(np.array(h0[::-1]).ravel(), device=device)\n        h1 = torch.tensor(np.array(h1[::-1]).ravel(), device=device)\n        h0 = h0.reshape((1, 1, -1)).to(t)\n        h1 = h1.reshape((1, 1, -1)).to(t)\n    finally:\n        torch.set_default_dtype(t)\n    return h0, h1")])

mut("own-H5-harmless-event-guarded-lazy-init", [],
    "HARMLESS control: a one-time table warm-up guarded by a non-blocking lock and a threading.Event (late callers wait for the event); correct under every schedule and after a failed first attempt; must NOT alarm and must not hang the simulator",
    [("pytorch_wavelets/dtcwt/coeffs.py", "COEFF_CACHE = {}\n", "import threading\nCOEFF_CACHE = {}\n_READY = threading.Event()\n_INIT = threading.Lock()\n_WARM = {}\n\n\ndef _warm_up():\n    if _READY.is_set():\n        return\n    if _INIT.acquire(False):\n        try:\n            _WARM['names'] = ('antonini', 'legall', 'near_sym_a', 'near_sym_b')\n            _READY.set()\n        finally:\n            _INIT.release()\n    else:\n        while not _READY.wait(0.01):\n            if _INIT.acquire(False):\n                _INIT.release()\n                return _warm_up()\n"),
     ("pytorch_wavelets/dtcwt/coeffs.py", "def _load_from_file(basename, varnames):\n\n    try:\n        mat = COEFF_CACHE[basename]", "def _load_from_file(basename, varnames):\n    _warm_up()\n    try:\n        mat = COEFF_CACHE[basename]")])

mut("own-H6-harmless-importlib-resources-loader", [],
    "HARMLESS control: the table loader drops the deprecated pkg_resources and opens the .npz through importlib.resources + np.load (the module attributes `resource_stream` and `load` that the I/O seam hangs on disappear); must NOT alarm, and stream faults must still reach the loader through the numpy.load seam",
    [("pytorch_wavelets/dtcwt/coeffs.py", "from numpy import load\nfrom pkg_resources import resource_stream\n", "import numpy as np\nfrom importlib import resources\n"),
     ("pytorch_wavelets/dtcwt/coeffs.py", "        with resource_stream('pytorch_wavelets.dtcwt.data', basename + '.npz') as f:\n            mat = dict(load(f))", "        ref = resources.files('pytorch_wavelets.dtcwt.data').joinpath(basename + '.npz')\n        with ref.open('rb') as f:\n            mat = dict(np.load(f))")])

mut("own-H7-harmless-import-time-registration", [],
    "HARMLESS control: a module that registers a torch.library namespace at import time and therefore cannot be executed twice in one process; the simulator must fall back gracefully (no harness error, no alarm)",
    [("pytorch_wavelets/utils.py", "import functools\nimport numpy as np\n", "import functools\nimport numpy as np\nimport torch\n\n_PW_LIB = torch.library.Library('pytorch_wavelets_ops', 'DEF')\n")])

only = sys.argv[1:]
for name, breaks, needs, edits in MUTS:
    if only and name not in only:
        continue
    sh("git", "-C", WT, "checkout", "-q", "--", ".")
    for path, old, new in edits:
        p = os.path.join(WT, path)
        s = open(p).read()
        if s.count(old) != 1:
            raise SystemExit("%s: pattern occurs %d times in %s" % (name, s.count(old), path))
        open(p, "w").write(s.replace(old, new))
    sh("/venv/bin/python", "-c", "import sys; sys.path.insert(0, %r); import pytorch_wavelets" % WT, env=dict(os.environ, PYTHONWARNINGS="ignore"))
    d = os.path.join("/verif/seeded", name)
    os.makedirs(d, exist_ok=True)
    diff = sh("git", "-C", WT, "diff")
    open(os.path.join(d, "patch.diff"), "w").write(diff)
    meta = {"id": name, "breaks": breaks, "origin": "written by the harness author as a sensitivity probe (DESIGN.md section 7); not independent of the checks",
            "needs_to_manifest": needs, "harmless_control": not breaks}
    json.dump(meta, open(os.path.join(d, "meta.json"), "w"), indent=1)
    print("wrote", name)
sh("git", "-C", WT, "checkout", "-q", "--", ".")
