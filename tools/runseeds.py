import sys
from wavesim import env
env.bootstrap() if hasattr(env,"bootstrap") else None
from wavesim import gen, world
prof=sys.argv[1]
for s in map(int, sys.argv[2:]):
    p=gen.gen_plan(prof, s, "quick")
    r=world.run_plan(p)
    print(s, [(v["invariant"], v["message"][:150]) for v in r["violations"][:3]], r["outcomes"])
