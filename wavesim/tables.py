"""C18: reference tables, the identities the transforms rely on, and the
invariants T1-T6 evaluated on everything a loader returns.

Reference = the installed reference package's own data files
(site-packages/dtcwt/data/*.npz, parsed here with numpy, never through the
library under test), cross-checked against a pinned copy committed in
/verif/wavesim/tables_pinned.json.  `farras` and `near_sym_a2` have no
counterpart in the reference package and are held to the pinned copy only.
"""
import json
import os

import numpy as np

HERE = os.path.dirname(os.path.abspath(__file__))
PINNED = os.path.join(HERE, "tables_pinned.json")

LEVEL1 = ["antonini", "legall", "near_sym_a", "near_sym_b", "near_sym_b_bp"]
QSHIFT = ["qshift_06", "qshift_a", "qshift_b", "qshift_c", "qshift_d", "qshift_b_bp", "qshift_32"]
OTHER = ["farras", "near_sym_a2"]
ALL_NAMES = LEVEL1 + QSHIFT + OTHER
INVALID = ["no_such_table", "qshift_e", ""]

K_COMPACT = ("h0o", "g0o", "h1o", "g1o")
K_COMPACT_BP = ("h0o", "g0o", "h1o", "g1o", "h2o", "g2o")
K_AB = ("h0a", "h0b", "g0a", "g0b", "h1a", "h1b", "g1a", "g1b")
K_AB_BP = K_AB + ("h2a", "h2b", "g2a", "g2b")

LOADERS = ["biort", "level1", "level1c", "qshift"]

_ref = None


def loader_keys(loader, name):
    if loader in ("biort", "level1c"):
        return K_COMPACT_BP if name == "near_sym_b_bp" else K_COMPACT
    if loader == "level1":
        return K_AB
    if loader == "qshift":
        return K_AB_BP if name == "qshift_b_bp" else K_AB
    raise ValueError(loader)


def _parse_npz(path):
    with np.load(path) as z:
        return {k: np.array(z[k]) for k in z.files if not k.startswith("__")}


def reference_tables():
    """{name: {key: float64 array (L,1)}} from the reference package + pin."""
    global _ref
    if _ref is not None:
        return _ref
    with open(PINNED) as f:
        pin = json.load(f)
    ref = {}
    for name, t in pin["tables"].items():
        ref[name] = {k: np.frombuffer(bytes.fromhex(v["hex"]), dtype="<f8").reshape(v["shape"])
                     for k, v in t.items()}
    import dtcwt.coeffs as dc
    ddir = os.path.join(os.path.dirname(dc.__file__), "data")
    problems = []
    for name in LEVEL1 + QSHIFT:
        p = os.path.join(ddir, name + ".npz")
        if not os.path.exists(p):
            problems.append("reference package lacks %s" % name)
            continue
        t = _parse_npz(p)
        for k, a in t.items():
            if a.dtype.kind != "f" or a.ndim != 2 or k[0] not in "hg":
                continue
            b = ref.get(name, {}).get(k)
            if b is None or b.shape != a.shape or b.tobytes() != a.astype("<f8").tobytes():
                problems.append("pinned copy of %s[%s] differs from the reference package" % (name, k))
    if problems:
        from .env import HarnessError
        raise HarnessError("; ".join(problems[:5]))
    _ref = ref
    return ref


def expected(loader, name):
    """("ok", tuple of arrays) | ("raise", exception classes)"""
    ref = reference_tables()
    if name not in ref:
        return "raise", (OSError,)
    keys = loader_keys(loader, name)
    t = ref[name]
    if all(k in t for k in keys):
        return "ok", tuple(t[k] for k in keys)
    return "raise", (ValueError,)


def same_arrays(val, exp):
    if not isinstance(val, tuple):
        return "loader returned %s, not a tuple" % type(val).__name__
    if len(val) != len(exp):
        return "tuple of %d arrays, expected %d" % (len(val), len(exp))
    for i, (a, b) in enumerate(zip(val, exp)):
        if not isinstance(a, np.ndarray):
            return "element %d is %s" % (i, type(a).__name__)
        if a.dtype != np.float64:
            return "element %d has dtype %s, reference float64" % (i, a.dtype)
        if a.shape != b.shape:
            return "element %d has shape %s, reference %s" % (i, a.shape, b.shape)
        if a.tobytes() != b.tobytes():
            return "element %d differs from the reference table (max|diff|=%.3g)" % (
                i, float(np.max(np.abs(a - b))))
    return None


# ---- identities (T2) --------------------------------------------------------

def _rev(a):
    return a[::-1]


def _orth(a, b, same):
    n = len(a)
    m = 0.0
    for s in range(-(n // 2) + 1, n // 2):
        sh = 2 * s
        v = np.dot(a[sh:], b[:n - sh]) if sh >= 0 else np.dot(a[:n + sh], b[-sh:])
        m = max(m, abs(v - (1.0 if (same and s == 0) else 0.0)))
    return m


def identities(name, named):
    """named: {key: 1-D array} as *returned by a loader*. Returns a list of
    failed identities (empty = all hold)."""
    bad = []
    t = {k: np.asarray(v, dtype=np.float64).ravel() for k, v in named.items()}
    if name in LEVEL1 and "h0o" in t:
        for k in t:
            if np.max(np.abs(t[k] - _rev(t[k]))) > 1e-14:
                bad.append("%s.%s is not symmetric" % (name, k))
        c = np.convolve(t["h0o"], t["g0o"]) + np.convolve(t["h1o"], t["g1o"]) \
            if len(t["h0o"]) + len(t["g0o"]) == len(t["h1o"]) + len(t["g1o"]) else None
        if c is None:
            bad.append("%s: analysis/synthesis lengths do not pair up" % name)
        else:
            d = np.zeros_like(c)
            d[len(c) // 2] = 1.0
            if np.max(np.abs(c - d)) > 1e-13:
                bad.append("%s: h0o*g0o + h1o*g1o != delta (resid %.3g)" % (
                    name, float(np.max(np.abs(c - d)))))
    if name in QSHIFT and "h0a" in t:
        for x in ("0", "1") + (("2",) if "h2a" in t else ()):
            ha, hb, ga, gb = t["h%sa" % x], t["h%sb" % x], t["g%sa" % x], t["g%sb" % x]
            if len(ha) != len(hb) or np.any(hb != _rev(ha)):
                bad.append("%s: h%sb is not the time-reverse of h%sa" % (name, x, x))
            if len(ga) != len(ha) or np.any(ga != _rev(ha)):
                bad.append("%s: g%sa is not the time-reverse of h%sa" % (name, x, x))
            if len(gb) != len(hb) or np.any(gb != _rev(hb)):
                bad.append("%s: g%sb is not the time-reverse of h%sb" % (name, x, x))
        if len(t["h0a"]) == len(t["h1a"]):
            for tag, v in (("<h0a,h0a>", _orth(t["h0a"], t["h0a"], True)),
                           ("<h1a,h1a>", _orth(t["h1a"], t["h1a"], True)),
                           ("<h0a,h1a>", _orth(t["h0a"], t["h1a"], False))):
                if v > 1e-8:
                    bad.append("%s: %s not orthonormal under even shifts (%.3g)" % (name, tag, v))
        else:
            bad.append("%s: h0a/h1a lengths differ" % name)
    return bad


# ---- static, exhaustive part -------------------------------------------------

def shipped_names(L):
    ddir = os.path.join(os.path.dirname(L.coeffs.__file__), "data")
    return sorted(f[:-4] for f in os.listdir(ddir) if f.endswith(".npz"))


def knob_probe():
    """True iff every shipped table still loads through every entry point in a
    pristine library (used by seams.effective_shift under shrunk constants)."""
    from . import seams
    L = seams.fresh_library(patch_stream=False)
    call = {"biort": lambda c, x: c.biort(x), "level1": lambda c, x: c.level1(x),
            "level1c": lambda c, x: c.level1(x, compact=True), "qshift": lambda c, x: c.qshift(x)}
    for nm in ALL_NAMES:
        for ld in LOADERS:
            kind, _ = expected(ld, nm)
            if kind != "ok":
                continue
            try:
                call[ld](L.coeffs, nm)
            except Exception:  # noqa
                return False
    return True


def static_check():
    """Every shipped table x every loader entry point, twice, in a fresh
    library state.  Returns (n_obligations, failures, samples)."""
    from . import seams
    L = seams.fresh_library(patch_stream=False)
    ref = reference_tables()
    fails = []
    n = 0
    samples = []
    names = shipped_names(L)
    for nm in ALL_NAMES:
        n += 1
        if nm not in names:
            fails.append("table %s is not shipped any more" % nm)
    unknown = [nm for nm in names if nm not in ref]
    # a table added after the pinned tree has no counterpart to be equal to:
    # nothing in the property can be decided for it (reported in the evidence)
    call = {"biort": lambda c, x: c.biort(x), "level1": lambda c, x: c.level1(x),
            "level1c": lambda c, x: c.level1(x, compact=True), "qshift": lambda c, x: c.qshift(x)}
    for order in (0, 1):
        L = seams.fresh_library(patch_stream=False)
        seq = [(ld, nm) for nm in ALL_NAMES + INVALID for ld in LOADERS]
        if order:
            seq = seq[::-1]
        for ld, nm in seq:
            kind, exp = expected(ld, nm)
            res = []
            for rep in (0, 1):
                n += 1
                try:
                    res.append(("ok", call[ld](L.coeffs, nm)))
                except Exception as e:  # noqa
                    res.append(("raise", e))
            for rep, (st, v) in enumerate(res):
                if kind == "ok":
                    if st != "ok":
                        fails.append("%s(%r) load #%d raised %s: %s" % (ld, nm, rep + 1, type(v).__name__, v))
                        continue
                    m = same_arrays(v, exp)
                    if m:
                        fails.append("%s(%r) load #%d: %s" % (ld, nm, rep + 1, m))
                        continue
                    ids = identities(nm, dict(zip(loader_keys(ld, nm), v)))
                    for b in ids:
                        fails.append("%s(%r): %s" % (ld, nm, b))
                else:
                    # the reference defines no such (entry point, table): the
                    # property says nothing about what the loader does then
                    # (raise, or - after an API extension - return something)
                    pass
            if order == 0 and kind == "ok" and len(samples) < 6:
                samples.append({"loader": ld, "name": nm, "arrays": len(exp),
                                "lengths": [int(a.shape[0]) for a in exp]})
    return n, fails, samples


# ---- dynamic part: evaluated inside simulated runs ----------------------------------

def is_corrupt(w, name):
    """An injected bit inversion makes that table's file corrupt for the rest
    of the run (stored corruption does not heal).  Loads of a corrupt table may
    fail - zip CRCs catch most inversions, a few in the zip directory silently
    drop a member - but may never return numbers different from the reference."""
    return (name + ".npz") in w.corrupt


def check_load(w, cl, rec, op, status, val):
    kind, exp = expected(op["loader"], op["name"])
    faulted = bool(cl.fired) or is_corrupt(w, op["name"])
    w.probe("loads")
    form = op.get("form", "plain")
    if form.startswith("userpath"):
        # a path to the user's own file: whatever comes back is not a shipped
        # table; what matters is that the shipped tables stay what they are
        w.probe("user_file_loads")
        return
    if form in ("upper", "padded", "suffixed"):
        # not a name the pinned loaders accept: nothing is required - unless a
        # change starts to accept it, then it names that table
        w.probe("variant_name_forms")
        if status != "ok":
            return
    if status == "ok":
        if kind != "ok":
            # no reference for this (entry point, table): outside the property
            w.probe("value_without_reference")
            return
        m = same_arrays(val, exp)
        if m:
            w.violation("T4-fault-wrong-data" if faulted else "T1-table-values", rec,
                        "%s(%r)%s: %s" % (op["loader"], op["name"],
                                          " after an injected fault" if faulted else "", m))
            return
        for b in identities(op["name"], dict(zip(loader_keys(op["loader"], op["name"]), val))):
            w.violation("T2-identity", rec, b)
        if faulted:
            w.probe("load_survived_fault")
    else:
        if faulted:
            w.probe("load_failed_under_fault")
            return      # T4: may fail under a fault
        if kind == "ok":
            inv = "T5-recovery" if rec.get("retry") else "T6-load-failed"
            w.violation(inv, rec, "%s(%r) raised %s (%s) with no fault injected into this attempt"
                        % (op["loader"], op["name"], type(val).__name__, str(val)[:120]))
        else:
            w.probe("raise_without_reference")


def peek_cache(w, cl, rec):
    """Non-perturbing look at the library's table cache after every operation
    (internal name; skipped if a refactoring removes it).  A suspicious entry
    is confirmed through the public loaders before anything is reported."""
    cache = getattr(w.L.coeffs, "COEFF_CACHE", None)
    if not isinstance(cache, dict):
        w.probe("cache_not_peekable")
        return
    ref = reference_tables()
    suspicious = []
    for name in list(cache):
        mat = cache[name]
        r = ref.get(name)
        if r is None or not isinstance(mat, dict) or is_corrupt(w, name):
            continue
        for k, b in r.items():
            a = mat.get(k)
            if a is None or not isinstance(a, np.ndarray) or a.shape != b.shape \
                    or a.tobytes() != b.tobytes():
                suspicious.append(name)
                break
    w.probe("cache_peeks")
    for name in suspicious:
        w.probe("cache_suspicious")
        confirm_public(w, cl, rec, name)


def confirm_public(w, cl, rec, name):
    c = w.L.coeffs
    io_was = cl.io_enabled if cl is not None else None
    if cl is not None:
        cl.io_enabled = False
    try:
        for ld, fn in (("level1c", lambda: c.level1(name, compact=True)),
                       ("qshift", lambda: c.qshift(name))):
            kind, exp = expected(ld, name)
            if kind != "ok":
                continue
            try:
                v = fn()
            except Exception as e:  # noqa
                w.violation("T3-cache-poisoned", rec, "after this operation, a fault-free %s(%r) "
                            "raises %s: %s" % (ld, name, type(e).__name__, str(e)[:120]))
                continue
            m = same_arrays(v, exp)
            if m:
                w.violation("T3-cache-poisoned", rec, "after this operation, %s(%r) returns "
                            "wrong values: %s" % (ld, name, m))
    finally:
        if cl is not None:
            cl.io_enabled = io_was


def check_record_post(w, rec, st):
    """C18 end-of-run: modules built during the run must carry the reference
    filters (what the loader handed to the constructors)."""
    if rec["kind"] != "construct" or rec["outcome"] != "ok" or rec.get("faulted"):
        return
    from .reference import ref_record
    from .tensors import compare, snap_digest
    from .world import module_state_snap
    oc, mod, _ = ref_record(None, rec, "recipe")
    st["ref_calls"] += 1
    if oc != "ok":
        w.violation("T3-consumer-filters", rec, "constructor succeeded in the simulation but the "
                    "pristine reference raises %s" % oc)
        return
    m = compare(rec["out_snap"], module_state_snap(mod), "bitwise")
    if m:
        w.violation("T3-consumer-filters", rec, "filters of a module constructed during the run "
                    "differ from a pristine construction: " + m)


def final_loads(w):
    """T5 at end of run: once faults have stopped every table loads, once,
    through every entry point that defines it, with the reference values."""
    c = w.L.coeffs
    call = {"biort": lambda x: c.biort(x), "level1": lambda x: c.level1(x),
            "level1c": lambda x: c.level1(x, compact=True), "qshift": lambda x: c.qshift(x)}
    n = 0
    for nm in ALL_NAMES:
        for ld in LOADERS:
            kind, exp = expected(ld, nm)
            if kind != "ok":
                continue
            n += 1
            try:
                v = call[ld](nm)
            except Exception as e:  # noqa
                if is_corrupt(w, nm):
                    w.probe("corrupt_table_unloadable")
                    continue
                w.violation("T5-recovery", None, "end of run, faults stopped: %s(%r) raises %s: %s"
                            % (ld, nm, type(e).__name__, str(e)[:120]))
                continue
            m = same_arrays(v, exp)
            if m:
                w.violation("T3-cache-poisoned", None, "end of run: %s(%r): %s" % (ld, nm, m))
    w.probe("final_loads", n)


def pin():
    """Write tables_pinned.json from the reference package (12 tables) and
    the current tree (farras, near_sym_a2).  Run once, by hand."""
    import dtcwt.coeffs as dc
    ddir = os.path.join(os.path.dirname(dc.__file__), "data")
    rdir = "/repo/pytorch_wavelets/dtcwt/data"
    out = {}
    for name in ALL_NAMES:
        p = os.path.join(ddir if name not in OTHER else rdir, name + ".npz")
        t = _parse_npz(p)
        out[name] = {k: {"shape": list(a.shape), "hex": a.astype("<f8").tobytes().hex()}
                     for k, a in sorted(t.items()) if a.dtype.kind == "f" and a.ndim == 2
                     and k[0] in "hg"}
    with open(PINNED, "w") as f:
        json.dump({"source": "dtcwt 0.14.0 data files; farras/near_sym_a2 from the pinned tree",
                   "tables": out}, f, indent=0, sort_keys=True)


if __name__ == "__main__":
    import sys
    if sys.argv[1:] == ["--pin"]:
        pin()
