"""wavesim - deterministic simulation with fault injection for pytorch_wavelets.

See /verif/DESIGN.md.  Nothing in here is imported by the library; the library
is driven through its public API, `sys.settrace` and one patched module
attribute (`pytorch_wavelets.dtcwt.coeffs.resource_stream`).
"""
