"""Tensor specs (JSON) -> tensors, snapshots, comparisons.

A tensor in a plan is {"shape": [...], "dtype": "float32"|"float64",
"layout": ..., "seed": int, "scale": float}; its values come from numpy's
PCG64(seed), never from torch's global RNG.
"""
import hashlib

import numpy as np
import torch

DT = {"float32": torch.float32, "float64": torch.float64,
      "bfloat16": torch.bfloat16, "float16": torch.float16,
      "int64": torch.int64, "complex64": torch.complex64}
NPDT = {"float32": np.float32, "float64": np.float64,
        "bfloat16": np.float32, "float16": np.float32,     # reduced precisions are cast afterwards
        "int64": np.int64, "complex64": np.complex64}
DTNAME = {torch.float32: "float32", torch.float64: "float64",
          torch.bfloat16: "bfloat16", torch.float16: "float16",
          torch.int64: "int64", torch.complex64: "complex64"}

LAYOUTS = ("contig", "transposed", "step", "offset", "expand", "chlast", "rowstep", "chanslice")
# "unbatched" (batch dimension dropped) is drawn separately: an invalid rank on the pinned tree


_FILL = None


def _rnd(rng, shape, dtype, scale):
    a = rng.standard_normal(shape) * scale
    fill = _FILL
    if fill == "zeros":
        a = np.zeros(shape)
    elif fill == "ones":
        a = np.ones(shape)
    elif fill == "ints":
        a = np.rint(a * 4)
    elif fill == "naninf" and a.size:
        f = a.reshape(-1)
        f[0] = np.nan
        f[-1] = np.inf
        if f.size > 2:
            f[f.size // 2] = -np.inf
    t = torch.from_numpy(np.ascontiguousarray(a.astype(NPDT[dtype])))
    if dtype in ("bfloat16", "float16"):
        t = t.to(DT[dtype])
    return t


def make_tensor(spec):
    """Returns (base, view): `view` is what is passed to the library, `base`
    owns the storage (snapshotted whole, so writes outside the view show)."""
    global _FILL
    _FILL = spec.get("fill")          # value structure: None (normal) | zeros | ones | ints | naninf
    try:
        return _make_tensor(spec)
    finally:
        _FILL = None


def _make_tensor(spec):
    shape = list(spec["shape"])
    dtype = spec["dtype"]
    layout = spec.get("layout", "contig")
    scale = spec.get("scale", 1.0)
    rng = np.random.Generator(np.random.PCG64(spec["seed"]))
    if layout == "transposed" and len(shape) >= 2:
        base = _rnd(rng, shape[:-2] + [shape[-1], shape[-2]], dtype, scale)
        view = base.transpose(-1, -2)
    elif layout == "step":
        base = _rnd(rng, shape[:-1] + [2 * shape[-1]], dtype, scale)
        view = base[..., ::2]
    elif layout == "offset":
        base = _rnd(rng, shape[:-1] + [shape[-1] + 3], dtype, scale)
        view = base[..., 1:1 + shape[-1]]
    elif layout == "unbatched" and len(shape) >= 3:
        base = _rnd(rng, shape[1:], dtype, scale)
        view = base
    elif layout == "rowstep" and len(shape) >= 3:
        base = _rnd(rng, shape[:-2] + [2 * shape[-2], shape[-1]], dtype, scale)
        view = base[..., ::2, :]
    elif layout == "chanslice" and len(shape) >= 3:
        base = _rnd(rng, [shape[0], shape[1] + 2] + shape[2:], dtype, scale)
        view = base[:, 1:1 + shape[1]]
    elif layout == "expand" and shape[0] > 1:
        base = _rnd(rng, [1] + shape[1:], dtype, scale)
        view = base.expand(shape)
    elif layout == "chlast" and len(shape) == 4:
        base = _rnd(rng, shape, dtype, scale).contiguous(
            memory_format=torch.channels_last)
        view = base
    else:
        base = _rnd(rng, shape, dtype, scale)
        view = base
    return base, view


def _np(d):
    """numpy view of a detached tensor; dtypes numpy lacks (bfloat16) are
    widened to float32 (injective, so bitwise comparison stays exact)"""
    if d.dtype == torch.bfloat16:
        d = d.float()
    return d.contiguous().cpu().numpy()


def raw_bytes(t):
    """Bytes of a tensor's values (contiguous order), NaN-safe."""
    with torch.no_grad():
        d = t.detach()
        if d.is_inference():
            d = d.clone()
        return _np(d).tobytes()


def storage_bytes(base):
    """Bytes of the whole storage behind `base` (base is a dense tensor)."""
    with torch.no_grad():
        return _np(base.detach()).tobytes()


def to_numpy(t):
    with torch.no_grad():
        d = t.detach()
        if d.is_inference():
            d = d.clone()
        return np.array(_np(d), copy=True)


def snap(obj):
    """Structural + value snapshot of an output tree."""
    if obj is None:
        return ("N",)
    if isinstance(obj, torch.Tensor):
        try:
            has_fn = obj.grad_fn is not None
        except RuntimeError:
            # torch refuses to rebase the history of a returned view whose base
            # was modified in place behind the caller's back
            has_fn = "unusable"
        return ("T", DTNAME.get(obj.dtype, str(obj.dtype)), tuple(obj.shape),
                bool(obj.requires_grad), has_fn, to_numpy(obj))
    if isinstance(obj, np.ndarray):
        return ("A", str(obj.dtype), tuple(obj.shape), np.array(obj, copy=True))
    if isinstance(obj, (list, tuple)):
        return ("L" if isinstance(obj, list) else "U", [snap(o) for o in obj])
    if isinstance(obj, (int, float, str, bool)):
        return ("S", repr(obj))
    return ("O", type(obj).__name__)


def flat_tensors(obj, out=None):
    if out is None:
        out = []
    if isinstance(obj, torch.Tensor):
        out.append(obj)
    elif isinstance(obj, (list, tuple)):
        for o in obj:
            flat_tensors(o, out)
    return out


def snap_digest(s, h=None):
    top = h is None
    if top:
        h = hashlib.blake2b(digest_size=16)
    tag = s[0]
    h.update(tag.encode())
    if tag == "T":
        h.update(repr(s[1:5]).encode())
        h.update(s[5].tobytes())
    elif tag == "A":
        h.update(repr(s[1:3]).encode())
        h.update(s[3].tobytes())
    elif tag in ("L", "U"):
        h.update(str(len(s[1])).encode())
        for e in s[1]:
            snap_digest(e, h)
    elif tag in ("S", "O"):
        h.update(s[1].encode())
    if top:
        return h.hexdigest()


def describe(s):
    tag = s[0]
    if tag == "T":
        return "T[%s %s rg=%s fn=%s]" % (s[1], list(s[2]), int(s[3]), s[4])
    if tag == "A":
        return "A[%s %s]" % (s[1], list(s[2]))
    if tag in ("L", "U"):
        br = "[]" if tag == "L" else "()"
        return br[0] + ", ".join(describe(e) for e in s[1]) + br[1]
    if tag == "N":
        return "None"
    return "%s:%s" % (tag, s[1])


def compare(a, b, mode="bitwise", tol=0.0, scale=None, path="out", check_grad_meta=True):
    """Compare two snapshots. Returns None if equal, else a message naming the
    first difference.  mode: 'bitwise' | 'tol' (|a-b| <= tol * scale, where
    scale defaults to max(1e-30, max|b|))."""
    if a[0] != b[0]:
        return "%s: structure differs: %s vs %s" % (path, describe(a), describe(b))
    tag = a[0]
    if tag == "T":
        if a[1] != b[1]:
            return "%s: dtype %s vs %s" % (path, a[1], b[1])
        if a[2] != b[2]:
            return "%s: shape %s vs %s" % (path, list(a[2]), list(b[2]))
        if check_grad_meta and (a[3] != b[3] or a[4] != b[4]):
            return "%s: requires_grad/grad_fn (%s,%s) vs (%s,%s)" % (
                path, a[3], a[4], b[3], b[4])
        return _cmp_arr(a[5], b[5], mode, tol, scale, path)
    if tag == "A":
        if a[1] != b[1] or a[2] != b[2]:
            return "%s: array meta %s%s vs %s%s" % (path, a[1], a[2], b[1], b[2])
        return _cmp_arr(a[3], b[3], mode, tol, scale, path)
    if tag in ("L", "U"):
        if len(a[1]) != len(b[1]):
            return "%s: length %d vs %d" % (path, len(a[1]), len(b[1]))
        for i, (x, y) in enumerate(zip(a[1], b[1])):
            r = compare(x, y, mode, tol, scale, "%s[%d]" % (path, i), check_grad_meta)
            if r:
                return r
        return None
    if tag in ("S", "O"):
        if a[1] != b[1]:
            return "%s: %s vs %s" % (path, a[1], b[1])
    return None


def _cmp_arr(x, y, mode, tol, scale, path):
    if mode == "bitwise":
        if x.tobytes() != y.tobytes():
            with np.errstate(all="ignore"):
                d = np.abs(x.astype(np.float64) - y.astype(np.float64))
                md = float(np.nanmax(d)) if d.size else 0.0
            return "%s: values differ bitwise (max|diff|=%.3g, n=%d)" % (path, md, x.size)
        return None
    if x.size == 0:
        return None
    with np.errstate(all="ignore"):
        xd = x.astype(np.float64)
        yd = y.astype(np.float64)
        fx, fy = np.isfinite(xd), np.isfinite(yd)
        if not np.array_equal(fx, fy) or not np.array_equal(
                np.nan_to_num(xd[~fx], nan=0.5, posinf=1.0, neginf=-1.0),
                np.nan_to_num(yd[~fy], nan=0.5, posinf=1.0, neginf=-1.0)):
            return "%s: NaN/inf pattern differs" % path
        if not fx.any():
            return None
        d = float(np.max(np.abs(xd[fx] - yd[fy])))
        sc = scale if scale is not None else max(1e-30, float(np.max(np.abs(yd[fy]))))
    if not d <= tol * sc:
        return "%s: max|diff|=%.3g > %.3g (tol %.3g * scale %.3g)" % (
            path, d, tol * sc, tol, sc)
    return None


def _finite_max(a):
    if not a.size:
        return 0.0
    with np.errstate(all="ignore"):
        f = np.abs(a[np.isfinite(a)])
    return float(np.max(f)) if f.size else 0.0


def max_abs(s):
    tag = s[0]
    if tag == "T":
        return _finite_max(s[5])
    if tag == "A":
        return _finite_max(s[3])
    if tag in ("L", "U"):
        return max([max_abs(e) for e in s[1]] + [0.0])
    return 0.0
