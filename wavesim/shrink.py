"""Minimise a failing plan (operations, faults, pre-emptions, arguments) while
the same (property, invariant) keeps failing.  Delta debugging over explicit
data; every candidate is executable because operations whose inputs are
missing are skipped at run time and schedule entries naming absent
operations are ignored."""
import copy
import time

from . import world


def signature(v):
    return (v["property"], v["invariant"])


def fails(plan, sig, counter):
    counter[0] += 1
    try:
        res = world.run_plan(plan, watchdog=60.0)
    except Exception:  # a candidate that breaks the harness is not a witness
        return None
    for v in res["violations"]:
        if signature(v) == sig:
            return res
    return None


def make_explicit(plan, res):
    """Freeze the PRNG-driven schedule of a run into the plan."""
    p = copy.deepcopy(plan)
    p["schedule"] = res["schedule"]
    return p


def _ddmin_list(items, test, deadline):
    """Classic ddmin on a list; test(sublist) -> bool (still fails)."""
    n = 2
    while len(items) >= 1 and deadline.open():
        chunk = max(1, len(items) // n)
        reduced = False
        i = 0
        while i < len(items) and deadline.open():
            cand = items[:i] + items[i + chunk:]
            if test(cand):
                items = cand
                n = max(n - 1, 2)
                reduced = True
            else:
                i += chunk
        if not reduced:
            if chunk == 1:
                break
            n = min(len(items), n * 2)
    return items


class _Budget:
    """The minimiser stops after a fixed number of candidate executions (so that
    the same failing run minimises to the same replay file whatever the machine
    load); the wall-clock cap is only a safety net."""

    def __init__(self, counter, max_candidates, wall_s):
        self.counter = counter
        self.max = max_candidates
        self.t_end = time.time() + wall_s

    def open(self):
        return self.counter[0] < self.max and time.time() < self.t_end


def shrink(plan, res, sig, budget_s=90.0, max_candidates=None):
    """Returns (minimised explicit plan, stats)."""
    t0 = time.time()
    counter = [0]
    deadline = _Budget(counter, max_candidates or int(budget_s * 12), budget_s * 6)
    cur = make_explicit(plan, res)
    # keep only faults that actually fired in the failing run
    r0 = fails(cur, sig, counter)
    if r0 is None:
        # explicit replay did not reproduce: report the seed-driven plan as is
        return plan, {"explicit": False, "candidates": counter[0], "wall_s": time.time() - t0}

    def with_ops(oplist):
        p = copy.deepcopy(cur)
        keep = set(oplist)
        p["programs"] = [[o for o in prog if (c, o["id"]) in keep]
                         for c, prog in enumerate(cur["programs"])]
        live = set(o["id"] for prog in p["programs"] for o in prog)
        p["faults"] = [f for f in cur.get("faults", []) if f["op_id"] in live]
        return p

    progress = True
    rounds = 0
    while progress and deadline.open() and rounds < 4:
        rounds += 1
        progress = False
        # 1. operations
        ops = [(c, o["id"]) for c, prog in enumerate(cur["programs"]) for o in prog]
        small = _ddmin_list(ops, lambda lst: fails(with_ops(lst), sig, counter) is not None, deadline)
        if len(small) < len(ops):
            cur = with_ops(small)
            progress = True
        # 2. faults
        fl = list(cur.get("faults", []))

        def with_faults(lst):
            p = copy.deepcopy(cur)
            p["faults"] = lst
            return p
        small = _ddmin_list(fl, lambda lst: fails(with_faults(lst), sig, counter) is not None, deadline)
        if len(small) < len(fl):
            cur = with_faults(small)
            progress = True
        # 3. pre-emptions
        sw = list(cur.get("schedule", []))

        def with_sched(lst):
            p = copy.deepcopy(cur)
            p["schedule"] = lst
            return p
        small = _ddmin_list(sw, lambda lst: fails(with_sched(lst), sig, counter) is not None, deadline)
        if len(small) < len(sw):
            cur = with_sched(small)
            progress = True
        # 4. arguments
        if simplify_args(cur, sig, counter, deadline):
            progress = True
    # drop empty trailing clients only if indices stay valid (keep positions)
    return cur, {"explicit": True, "candidates": counter[0], "wall_s": round(time.time() - t0, 2),
                 "ops": sum(len(p) for p in cur["programs"]),
                 "faults": len(cur.get("faults", [])), "switches": len(cur.get("schedule", []))}


def simplify_args(cur, sig, counter, deadline):
    changed = False

    def attempt(mutator):
        nonlocal changed
        if not deadline.open():
            return
        p = copy.deepcopy(cur)
        if not mutator(p):
            return
        if fails(p, sig, counter) is not None:
            cur.clear()
            cur.update(p)
            changed = True

    def each_op(p):
        for prog in p["programs"]:
            for o in prog:
                yield o

    n_ops = sum(len(pr) for pr in cur["programs"])
    for idx in range(n_ops):
        def get(p, idx=idx):
            return list(each_op(p))[idx]
        o = get(cur)
        if o["op"] in ("call", "func", "roundtrip"):
            specs = [o["arg"]] if o["op"] != "func" else o["args"]
            for si in range(len(specs)):
                def m_contig(p, si=si):
                    oo = get(p)
                    sp = oo["arg"] if oo["op"] != "func" else oo["args"][si]
                    if sp.get("layout", "contig") == "contig":
                        return False
                    sp["layout"] = "contig"
                    return True
                attempt(m_contig)

                def m_nc(p, si=si):
                    oo = get(p)
                    sp = oo["arg"] if oo["op"] != "func" else oo["args"][si]
                    if sp["shape"][0] == 1 and sp["shape"][1] == 1:
                        return False
                    sp["shape"][0] = 1
                    sp["shape"][1] = 1
                    return True
                attempt(m_nc)

                def m_scale(p, si=si):
                    oo = get(p)
                    sp = oo["arg"] if oo["op"] != "func" else oo["args"][si]
                    if sp.get("scale", 1.0) == 1.0:
                        return False
                    sp["scale"] = 1.0
                    return True
                attempt(m_scale)

            def m_gm(p):
                oo = get(p)
                if oo.get("grad_mode", "ambient") == "ambient" and not oo.get("i6"):
                    return False
                oo["grad_mode"] = "ambient"
                oo["i6"] = False
                return True
            attempt(m_gm)
        if o["op"] == "construct":
            def m_j(p):
                oo = get(p)
                if oo["params"].get("J", 1) <= 1:
                    return False
                oo["params"]["J"] = 1
                for k in ("skip_hps", "include_scale"):
                    if isinstance(oo["params"].get(k), list):
                        oo["params"][k] = oo["params"][k][:1]
                return True
            attempt(m_j)

            def m_wave(p):
                oo = get(p)
                w = oo["params"].get("wave")
                if not w or (w["kind"] == "name" and w["name"] == "haar"):
                    return False
                oo["params"]["wave"] = {"kind": "name", "name": "haar"}
                return True
            attempt(m_wave)
        if o["op"] == "inverse":
            def m_inv(p):
                oo = get(p)
                if not oo.get("perturb") and not oo.get("i6"):
                    return False
                oo["perturb"] = 0.0
                oo["i6"] = False
                return True
            attempt(m_inv)
    return changed
