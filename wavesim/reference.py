"""History-free reference context and the oracles evaluated over a recorded
history (C15: I3/I5/I6 + canaries; C16: clauses i, ii, iv).

The reference for a call is *that call alone*: library module state freshly
re-initialised (seams.fresh_library), a fresh module instance built from the
recorded construction/conversion recipe, the recorded default dtype in force,
the real data files, one thread, no tracing, no faults, and bitwise copies of
the arguments.  The reference never replays the history.
"""
import numpy as np

from . import catalog, seams
from .tensors import (DT, DTNAME, compare, make_tensor, max_abs, snap,
                      snap_digest)
from .world import (CONVERT_TARGET, apply_convert, call_with_mode, do_restart, load_other,
                    put_tensor_state, tensor_state,
                    func_args, module_state_snap, run_func, select_backward,
                    thaw_pyramid)

EPS = {"float32": float(np.finfo(np.float32).eps), "float64": float(np.finfo(np.float64).eps),
       "float16": float(np.finfo(np.float16).eps), "bfloat16": 2.0 ** -7}


def fresh(default_dtype):
    L = seams.fresh_library(patch_stream=False)
    L.torch.set_default_dtype(DT[default_dtype])
    L.torch.set_grad_enabled(True)
    return L


def build_from_recipe(L, recipe):
    torch = L.torch
    mod = None
    for i, st in enumerate(recipe):
        if st[0] == "construct":
            torch.set_default_dtype(DT[st[3]])
            mod = catalog.build(st[1], st[2])
        elif st[0] == "convert":
            mod = apply_convert(mod, st[1], torch)
        elif st[0] == "load_other":
            torch.set_default_dtype(DT[st[3]])
            mod = load_other(mod, st)
        elif st[0] == "restart":
            torch.set_default_dtype(DT[st[2]])
            mod = do_restart(L, mod, recipe[:i], st)
    return mod


def build_direct(L, recipe, cur_dtype):
    """A module constructed directly in precision cur_dtype (C16-ii)."""
    L.torch.set_default_dtype(DT[cur_dtype])
    p = recipe[0][2]
    if catalog.explicit_dtype(recipe[0][1], p):
        p = dict(p, dtype_as=cur_dtype)
    mod = catalog.build(recipe[0][1], p)
    for st in recipe[1:]:
        if st[0] == "load_other":
            # the values come from another configuration, built under the default
            # dtype that was in force when the user built that checkpoint
            L.torch.set_default_dtype(DT[st[3]])
            mod = load_other(mod, st)
            L.torch.set_default_dtype(DT[cur_dtype])
    return mod


def dtype_path(recipe):
    """Precisions the module's filters have been held in, according to the
    *semantics* of the recorded steps (not to what the module actually holds):
    construct -> default dtype in force; convert -> its target; deepcopy/pickle
    -> unchanged; state_dict restart -> a module constructed under the default
    in force then, converted the same way, loaded with the old values."""
    explicit = catalog.explicit_dtype(recipe[0][1], recipe[0][2])
    path = [explicit or recipe[0][3]]
    converted = None
    for st in recipe[1:]:
        if st[0] == "convert":
            if CONVERT_TARGET[st[1]] is None:
                continue          # object replacement without a precision change
            converted = CONVERT_TARGET[st[1]]
            path.append(converted)
        elif st[0] == "restart" and st[1] == "state_dict":
            path.append(converted or explicit or st[2])
    return path


def expected_dtype(recipe):
    return dtype_path(recipe)[-1]


def _run(fn):
    try:
        return "ok", fn()
    except BaseException as e:  # noqa
        from .sched import SchedAbort
        if isinstance(e, SchedAbort):
            raise
        return "raise:" + type(e).__name__, e


def ref_apply(L, rec, mod, grad_mode=None, contiguous=False, flip_rg=False):
    """Apply `mod` to fresh copies of the recorded arguments.  An INTEGER input
    is promoted by torch itself according to the default dtype in force at the
    call (`x / 2` of an int64 tensor): for such a call the ambient default dtype
    is part of the arguments, and the reference runs under the one the user had
    set when calling."""
    torch = L.torch
    cd = rec.get("call_default")
    if cd and rec["kind"] == "call" and rec["op"]["arg"].get("dtype") == "int64" \
            and DTNAME.get(torch.get_default_dtype()) != cd:
        prev = torch.get_default_dtype()
        torch.set_default_dtype(DT[cd])
        try:
            return _ref_apply(L, rec, mod, grad_mode, contiguous, flip_rg)
        finally:
            torch.set_default_dtype(prev)
    return _ref_apply(L, rec, mod, grad_mode, contiguous, flip_rg)


def _ref_apply(L, rec, mod, grad_mode=None, contiguous=False, flip_rg=False, layout=None):
    torch = L.torch
    gm = grad_mode or rec["op"].get("grad_mode", "ambient")
    if rec["kind"] == "call":
        base, x = make_tensor(rec["op"]["arg"])
        if contiguous or layout:
            x = x.contiguous().clone()
        if layout:
            x = relayout(torch, x, layout)
        leaf = x
        if bool(rec["op"].get("requires_grad")) != bool(flip_rg) and (
                x.is_floating_point() or x.is_complex()):
            x.requires_grad_(True)
            if rec["op"].get("nonleaf"):
                x = leaf * 1.0
        leaves = [leaf] if leaf.requires_grad else []
        oc, val = _run(lambda: call_with_mode(torch, lambda: mod(x), gm))
    else:
        low, highs, leaves = thaw_pyramid(rec["pyr"], contiguous=contiguous)
        oc, val = _run(lambda: call_with_mode(torch, lambda: mod((low, highs)), gm))
    return oc, val, leaves


def ref_record(L_unused, rec, how="recipe"):
    """Reference outcome for a call/inverse/func/load/construct/restart
    record.  Returns (outcome, live value, leaves)."""
    kind = rec["kind"]
    if kind in ("call", "inverse"):
        recipe = rec["recipe"]
        L = fresh(recipe[0][3])
        oc, mod = _run(lambda: build_from_recipe(L, recipe) if how == "recipe"
                       else build_direct(L, recipe, expected_dtype(recipe)))
        if oc != "ok":
            return "raise-in-construct:" + oc, None, []
        return ref_apply(L, rec, mod)
    if kind == "roundtrip":
        from .world import roundtrip
        L = fresh(rec["recipe"][0][3])
        if how == "recipe":
            oc, mods = _run(lambda: (build_from_recipe(L, rec["recipe"]),
                                     build_from_recipe(L, rec["recipe2"])))
        else:
            oc, mods = _run(lambda: (build_direct(L, rec["recipe"], expected_dtype(rec["recipe"])),
                                     build_direct(L, rec["recipe2"], expected_dtype(rec["recipe2"]))))
        if oc != "ok":
            return "raise-in-construct:" + oc, None, []
        base, x = make_tensor(rec["op"]["arg"])
        if rec["op"].get("requires_grad"):
            x.requires_grad_(True)
        oc, val = _run(lambda: call_with_mode(
            L.torch, lambda: roundtrip(mods[0], mods[1], x), rec["op"].get("grad_mode", "ambient")))
        return oc, val, [x] if x.requires_grad else []
    if kind == "func":
        L = fresh(rec["default_dtype"])
        a = func_args(L, rec["op"])
        oc, val = _run(lambda: call_with_mode(
            L.torch, lambda: run_func(L, rec["op"], a), rec["op"].get("grad_mode", "ambient")))
        return oc, val, []
    if kind == "load":
        L = fresh("float32")
        op = rec["op"]
        c = L.coeffs
        from .world import name_form
        nm = name_form(op["name"], op.get("form", "plain"))
        fn = {"biort": lambda: c.biort(nm), "level1": lambda: c.level1(nm),
              "level1c": lambda: c.level1(nm, compact=True),
              "qshift": lambda: c.qshift(nm)}[op["loader"]]
        oc, val = _run(fn)
        return oc, val, []
    if kind in ("construct", "restart"):
        recipe = rec.get("recipe")
        if recipe is None:
            # failed construct: rebuild what was attempted
            if kind == "restart":
                return None, None, []
            recipe = [["construct", rec["family"], rec["op"]["params"], rec["default_dtype"]]]
        L = fresh(recipe[0][3])
        oc, mod = _run(lambda: build_from_recipe(L, recipe))
        return oc, mod, []
    raise ValueError(kind)


def _outcome_class(rec):
    return rec["outcome"]


def check_history(w):
    prof = w.profile
    st = {"ref_calls": 0, "compared_bitwise": 0, "compared_tol": 0, "i6": 0, "strided": 0,
          "canaries": 0, "faulted_attempts": 0, "retries_checked": 0}
    w.ref_stats = st
    if prof in ("C15", "C16"):
        run_canaries(w, st)
    saved_default = w.L.torch.get_default_dtype()
    try:
        for rec in list(w.records):
            if rec["outcome"].startswith("skip"):
                continue
            if prof == "C15":
                check_c15(w, rec, st)
            elif prof == "C16":
                check_c16(w, rec, st)
            elif prof == "C18":
                check_c18(w, rec, st)
    finally:
        w.L.torch.set_default_dtype(saved_default)


# ---------------------------------------------------------------- C15

def check_c15(w, rec, st):
    kind = rec["kind"]
    if kind in ("convert", "drop", "forget", "set_default_dtype", "mutate_output", "signal", "wait", "barrier", "extra", "newapi"):
        return
    if kind == "backward":
        return check_backward(w, rec, st, "recipe")
    if kind == "restart" and rec.get("recipe") is None:
        return
    oc, val, leaves = ref_record(None, rec, "recipe")
    st["ref_calls"] += 1
    ref_snap = None
    if oc == "ok":
        ref_snap = module_state_snap(val) if kind in ("construct", "restart") else snap(val)
    w.log(("ref", rec["client"], rec["op_id"], oc, snap_digest(ref_snap) if ref_snap else ""))
    label = "canary " if rec.get("canary") else ""
    if rec.get("faulted"):
        st["faulted_attempts"] += 1
        # narrow relaxation: the faulted attempt may raise; it may not return
        # something else
        if rec["outcome"] == "ok":
            if oc != "ok":
                w.violation("I3-faulted-returned", rec,
                            "attempt hit by an injected fault returned a value where the "
                            "reference raises %s" % oc)
            else:
                m = compare(rec["out_snap"], ref_snap, "bitwise")
                if m:
                    w.violation("I3-faulted-wrong-value", rec,
                                "attempt hit by an injected fault returned a value different "
                                "from the reference: " + m)
        return
    if rec.get("retry"):
        st["retries_checked"] += 1
    inv = "I5-recovery" if rec.get("retry") else ("I3-canary" if rec.get("canary") else "I3-history")
    if rec["outcome"] != oc:
        w.violation(inv, rec, "%soutcome %s, history-free reference %s (%s)" % (
            label, rec["outcome"], oc, rec.get("exc_msg", "")))
        return
    if oc != "ok":
        return
    m = compare(rec["out_snap"], ref_snap, "bitwise")
    st["compared_bitwise"] += 1
    if m:
        w.violation(inv, rec, "%sresult differs from the history-free reference: %s" % (label, m))
        return
    # I6: whether autograd is recording must not matter (reference context only)
    if kind in ("call", "inverse") and rec["op"].get("i6"):
        gm = rec["op"].get("grad_mode", "ambient")
        oid = rec["op"].get("id", 0) if isinstance(rec["op"].get("id", 0), int) else 0
        if gm in ("ambient", "enable_grad"):
            other = "no_grad" if oid % 2 == 0 else "inference"
        else:
            other = "ambient"
        flip_rg = (oid // 2) % 2 == 1      # also toggle whether the input requires grad
        L = fresh(rec["recipe"][0][3])
        mod = build_from_recipe(L, rec["recipe"])
        oc2, val2, _ = ref_apply(L, rec, mod, grad_mode=other, flip_rg=flip_rg)
        other = other + ("+requires_grad flipped" if flip_rg else "")
        st["i6"] += 1
        if oc2 != oc:
            w.violation("I6-grad-mode", rec, "outcome %s under %s but %s under %s" % (oc, gm, oc2, other))
        elif oc2 == "ok":
            dt = rec["op"]["arg"]["dtype"] if kind == "call" else DTNAME.get(rec["pyr"][0][0].dtype, "float32")
            m = compare(snap(val2), ref_snap, "tol", 64 * EPS.get(dt, EPS["float32"]),
                        scale=max(1e-30, max_abs(ref_snap), _bias(rec)), check_grad_meta=False)
            if m:
                w.violation("I6-grad-mode", rec, "values under %s differ from values under %s: %s" % (other, gm, m))


def check_backward(w, rec, st, how):
    torch = w.L.torch
    fwd = rec["fwd_rec"]
    oc, val, leaves = ref_record(None, fwd, how)
    st["ref_calls"] += 1
    if oc != "ok":
        return   # the forward's own record reports this
    sel = select_backward(torch, val, leaves, rec["op"])
    if sel is None:
        if not rec.get("faulted"):
            w.violation("I3-history", rec, "backward ran in the simulation but the reference "
                        "forward offers nothing differentiable")
        return
    outs, cots, inputs = sel
    cg = bool(rec["op"].get("create_graph"))
    oc2, g = _run(lambda: torch.autograd.grad(outs, inputs, cots, retain_graph=cg,
                                              create_graph=cg, allow_unused=True))
    ref_snap = snap(list(g)) if oc2 == "ok" else None
    w.log(("ref", rec["client"], rec["op_id"], oc2, snap_digest(ref_snap) if ref_snap else ""))
    if rec.get("faulted"):
        st["faulted_attempts"] += 1
        if rec["outcome"] == "ok" and oc2 == "ok":
            m = compare(rec["out_snap"], ref_snap, "bitwise")
            if m:
                w.violation("I3-faulted-wrong-value", rec, "gradient after a swallowed fault: " + m)
        return
    inv = "I5-recovery" if rec.get("retry") else "I3-history"
    if how == "direct":
        inv = "D2-converted-vs-constructed"
    if rec["outcome"] != oc2:
        w.violation(inv, rec, "backward outcome %s, %s %s (%s)" % (
            rec["outcome"], "reference" if how == "recipe" else
            "through a module constructed in that precision:", oc2, rec.get("exc_msg", "")))
        return
    if oc2 == "ok":
        if how == "recipe":
            st["compared_bitwise"] += 1
            m = compare(rec["out_snap"], ref_snap, "bitwise")
        else:
            narrowed = _narrowed(fwd["recipe"], expected_dtype(fwd["recipe"])) or (
                fwd["kind"] == "roundtrip" and _narrowed(fwd["recipe2"], expected_dtype(fwd["recipe2"])))
            if narrowed:
                # filters carry a float32 rounding.  Linear transforms pass it on
                # unamplified (1e-5 is generous); the scattering layers' gradient
                # x/sqrt(|x|^2+b^2) amplifies it by up to 1/magbias, so there only
                # the same-filter-values comparison below is meaningful
                m = None
                if fwd.get("family") not in ("scat", "scat2"):
                    st["compared_tol"] += 1
                    # the bound is relative to what goes IN (the gradient handed
                    # to backward), not to what comes out: a constant cotangent
                    # through a highpass adjoint cancels to ~0 exactly when the
                    # filters sum to zero exactly, which float32-rounded ones do not
                    cs = max([float(c.detach().abs().max()) for c in cots if c.numel()] + [0.0])
                    m = compare(rec["out_snap"], ref_snap, "tol", 1e-5,
                                scale=max(max_abs(ref_snap), cs, _bias(fwd), 1e-30))
                if not m and fwd["kind"] in ("call", "inverse") and fwd.get("state") is not None:
                    cur = expected_dtype(fwd["recipe"])
                    L = fresh(cur)
                    oc3, mod3 = _run(lambda: build_direct(L, fwd["recipe"], cur))
                    if oc3 == "ok":
                        oc3, _ = _run(lambda: put_tensor_state(mod3, fwd["state"]))
                    if oc3 == "ok":
                        oc3, val3, leaves3 = ref_apply(L, fwd, mod3)
                    if oc3 == "ok":
                        sel3 = select_backward(torch, val3, leaves3, rec["op"])
                        if sel3 is not None:
                            o3, c3, i3 = sel3
                            oc3, g3 = _run(lambda: torch.autograd.grad(
                                o3, i3, c3, retain_graph=cg, create_graph=cg, allow_unused=True))
                            if oc3 == "ok":
                                st["compared_same_filters"] = st.get("compared_same_filters", 0) + 1
                                m = compare(rec["out_snap"], snap(list(g3)), "bitwise")
                                if m:
                                    m = "(module constructed in %s holding the same filter values) %s" % (cur, m)
            else:
                st["compared_bitwise"] += 1
                m = compare(rec["out_snap"], ref_snap, "bitwise")
        if m:
            w.violation(inv, rec, "gradient differs from the %s: %s" % (
                "history-free reference" if how == "recipe" else
                "gradient through a module constructed in that precision", m))
            return
    # C16 (iv) in the backward direction: a non-contiguous gradient handed to
    # backward (`y.sum().backward()` passes a stride-0 broadcast; a channels_last
    # network hands back channels_last gradients) behaves like its contiguous
    # copy.  Same values in every memory layout, one forward graph.
    if how == "direct":
        ocf, valf, leavesf = ref_record(None, fwd, "recipe")
        if ocf != "ok":
            return
        selc = select_backward(torch, valf, leavesf, rec["op"], contiguous=True)
        if selc is None:
            return
        outs_c, cots_c, inputs_c = selc
        occ, gc_ = _run(lambda: torch.autograd.grad(outs_c, inputs_c, cots_c, retain_graph=True,
                                                    allow_unused=True))
        sc = snap(list(gc_)) if occ == "ok" else None
        in_dt = DTNAME.get(cots_c[0].dtype, "float32")
        cs = max([float(c.detach().abs().max()) for c in cots_c if c.numel()] + [0.0])
        drawn = select_backward(torch, valf, leavesf, rec["op"])[1]
        for lay in ["drawn"] + COT_LAYOUTS:
            cl = drawn if lay == "drawn" else [relayout(torch, c, lay) for c in cots_c]
            if all(c.is_contiguous() for c in cl):
                continue
            name = rec["op"].get("cot_layout", "contig") if lay == "drawn" else lay
            ocs, gs = _run(lambda: torch.autograd.grad(outs_c, inputs_c, cl, retain_graph=True,
                                                       allow_unused=True))
            st["strided"] += 1
            if ocs != occ:
                w.violation("D4-strided", rec, "backward with a %s gradient: %s, with its contiguous "
                            "copy: %s" % (name, ocs, occ))
                return
            if occ == "ok":
                m = compare(snap(list(gs)), sc, "tol", 16 * EPS.get(in_dt, EPS["float32"]),
                            scale=max(1e-30, max_abs(sc), cs, _bias(fwd)))
                if m:
                    w.violation("D4-strided", rec, "backward with a %s gradient vs its contiguous "
                                "copy: %s" % (name, m))
                    return


COT_LAYOUTS = ["chlast", "transposed", "step", "rowstep", "chanslice", "perm01", "perm12"]


def relayout(torch, t, layout):
    """The same values as t in another memory layout (t itself if the layout
    does not exist for its rank)."""
    d = t.dim()
    if layout == "chlast":
        if d == 4:
            return t.contiguous(memory_format=torch.channels_last)
        if d == 5:
            return t.contiguous(memory_format=torch.channels_last_3d)
        return t
    if layout == "transposed" and d >= 2:
        return t.transpose(-1, -2).contiguous().transpose(-1, -2)
    if layout in ("perm01", "perm12") and d >= 3:
        i, j = (0, 1) if layout == "perm01" else (1, 2)
        return t.transpose(i, j).contiguous().transpose(i, j)
    if layout == "step" and d >= 1:
        buf = torch.zeros(tuple(t.shape[:-1]) + (2 * t.shape[-1],), dtype=t.dtype)
        buf[..., ::2] = t
        return buf[..., ::2]
    if layout == "rowstep" and d >= 2:
        buf = torch.zeros(tuple(t.shape[:-2]) + (2 * t.shape[-2], t.shape[-1]), dtype=t.dtype)
        buf[..., ::2, :] = t
        return buf[..., ::2, :]
    if layout == "chanslice" and d >= 3:
        buf = torch.zeros((t.shape[0], t.shape[1] + 2) + tuple(t.shape[2:]), dtype=t.dtype)
        buf[:, 1:1 + t.shape[1]] = t
        return buf[:, 1:1 + t.shape[1]]
    return t


def run_canaries(w, st):
    """End-of-run probe calls on every surviving instance and on freshly
    constructed modules, executed in the *simulated* process state (no
    reset), recorded like ordinary calls and judged by the same oracle.  They
    turn silent corruption of shared state (filter buffers, table cache,
    leaked default dtype / grad mode) into an observable result."""
    L = w.L
    torch = L.torch
    recs = []

    def do_call(inst_family, mod, recipe, tag, big=False):
        if inst_family in catalog.INPUT_RANK:
            dt = DTNAME.get(catalog.module_dtype(mod)) or "float32"
            spec = catalog.canary_spec(inst_family, dt)
            if big:
                # a plain evaluation batch (no gradient wanted) beyond any
                # plausible chunking threshold, in the module's own precision
                spec = dict(spec, shape=[40] + list(spec["shape"][1:]), seed=54321)
            op = {"op": "call", "id": tag, "arg": spec, "grad_mode": "ambient",
                  "requires_grad": not big}
            rec = {"client": -1, "op_id": tag, "op": op, "kind": "call", "canary": True,
                   "family": inst_family, "recipe": recipe, "mod_dtype": dt, "retry": False}
            if w.profile == "C16":
                rec["state"] = tensor_state(mod)
            base, x = make_tensor(spec)
            if not big:
                x.requires_grad_(True)
            oc, val = _run(lambda: mod(x))
            rec["outcome"] = oc
            if oc == "ok":
                rec["out_snap"] = snap(val)
            recs.append(rec)
    parity = int(w.plan.get("seed") or 0) % 2
    for slot in sorted(w.slots):
        inst = w.slots[slot]
        if inst is None:
            continue
        do_call(inst.family, inst.mod, inst.recipe, "canary-slot%s" % slot)
        if slot % 2 == parity:
            do_call(inst.family, inst.mod, inst.recipe, "canary-big-slot%s" % slot, big=True)
    # fresh constructions in the ambient (possibly leaked) state; the recipe
    # says what the harness *intended* the default dtype to be
    for fam, params in (("dwt2f", {"wave": {"kind": "name", "name": "db2"}, "mode": "symmetric", "J": 2}),
                        ("dtf", {"biort": "near_sym_b", "qshift": "qshift_b", "o_dim": 2, "ri_dim": -1,
                                 "mode": "symmetric", "J": 2, "skip_hps": False, "include_scale": False}),
                        ("scat", {"biort": "near_sym_b_bp", "mode": "symmetric", "magbias": 1e-2,
                                  "combine_colour": False})):
        tag = "canary-new-%s" % fam
        recipe = [["construct", fam, params, w.intended_default]]
        oc, mod = _run(lambda: catalog.build(fam, params))
        if oc != "ok":
            rec = {"client": -1, "op_id": tag, "op": {"params": params}, "kind": "construct",
                   "canary": True, "family": fam, "default_dtype": w.intended_default,
                   "outcome": oc, "retry": False}
            recs.append(rec)
            continue
        do_call(fam, mod, recipe, tag)
    st["canaries"] += len(recs)
    w.records.extend(recs)


# ---------------------------------------------------------------- C16

def check_c16(w, rec, st):
    kind = rec["kind"]
    if kind == "backward" and not rec.get("faulted"):
        # clause (ii) in the backward direction: gradients through a converted
        # module vs. a module constructed in that precision
        return check_backward(w, rec, st, "direct")
    if kind not in ("call", "inverse", "roundtrip") or rec.get("faulted"):
        return
    path = dtype_path(rec["recipe"])
    cur = expected_dtype(rec["recipe"])
    held = [(rec["mod_dtype"], cur)]
    if kind == "roundtrip":
        path = path + ["|"] + dtype_path(rec["recipe2"])
        held.append((rec["mod_dtype2"], expected_dtype(rec["recipe2"])))
        cur = "%s/%s" % (cur, expected_dtype(rec["recipe2"]))
    for actual, want in held:
        if actual is not None and actual != want:
            w.violation("D2-converted-vs-constructed", rec,
                        "after the history %s the module should be in %s but holds %s filters"
                        % (path, want, actual))
            return
    in_dt = rec["op"]["arg"]["dtype"] if kind != "inverse" else DTNAME.get(rec["pyr"][0][0].dtype)
    # (ii) converted module behaves like one constructed in that precision
    oc, val, leaves = ref_record(None, rec, "direct")
    st["ref_calls"] += 1
    ref_snap = snap(val) if oc == "ok" else None
    w.log(("ref", rec["client"], rec["op_id"], oc, snap_digest(ref_snap) if ref_snap else ""))
    if rec["outcome"] != oc:
        w.violation("D2-converted-vs-constructed", rec,
                    "module with dtype history %s (now %s): outcome %s, a module constructed "
                    "in %s gives %s (%s)" % (path, cur, rec["outcome"], cur, oc, rec.get("exc_msg", "")))
        return
    if oc != "ok":
        # a strided input must also *fail* like its contiguous copy
        check_d4(w, rec, st, kind, in_dt)
        return
    narrowed = _narrowed(rec["recipe"], expected_dtype(rec["recipe"])) or (
        kind == "roundtrip" and _narrowed(rec["recipe2"], expected_dtype(rec["recipe2"])))
    if narrowed:
        xs = 1.0
        if kind != "inverse":
            xs = abs(rec["op"]["arg"].get("scale", 1.0)) * 6.0
        else:
            xs = max(1e-30, max_abs(snap([rec["pyr"][0][0]] + [f[0] for f in rec["pyr"][1] if f is not None])))
        m = compare(rec["out_snap"], ref_snap, "tol", 1e-5,
                    scale=max(max_abs(ref_snap), xs, _bias(rec), 1e-30))
        st["compared_tol"] += 1
        if not m and kind in ("call", "inverse") and rec.get("state") is not None:
            # factor the float32 rounding of the filters out: a module
            # constructed directly in this precision and *given the converted
            # module's filter values* must agree bit for bit - whatever else
            # the module holds (plain attributes, cached tensors) converted too
            L = fresh(cur)
            oc3, mod3 = _run(lambda: build_direct(L, rec["recipe"], cur))
            if oc3 == "ok":
                oc3, _ = _run(lambda: put_tensor_state(mod3, rec["state"]))
            if oc3 == "ok":
                oc3, val3, _ = ref_apply(L, rec, mod3)
                st["compared_same_filters"] = st.get("compared_same_filters", 0) + 1
                if oc3 != "ok":
                    m = "a module constructed in %s and given the same filter values gives %s" % (cur, oc3)
                else:
                    m = compare(rec["out_snap"], snap(val3), "bitwise")
                    if m:
                        m = "differs from a module constructed in %s holding the same filter values: %s" % (cur, m)
    else:
        m = compare(rec["out_snap"], ref_snap, "bitwise")
        st["compared_bitwise"] += 1
    if m:
        w.violation("D2-converted-vs-constructed", rec,
                    "module with dtype history %s (now %s) differs from a module constructed in %s: %s"
                    % (path, cur, cur, m))
        return
    # (i) outputs carry the input's dtype - stated for floating-point inputs
    # (the property quantifies over float32 and float64); what an integer, bool,
    # reduced-precision or complex input gives, if accepted at all, is not fixed
    bad = _wrong_dtype(rec["out_snap"], in_dt) if in_dt in ("float32", "float64") else None
    if bad:
        w.violation("D1-output-dtype", rec, "input dtype %s but %s" % (in_dt, bad))
    check_d4(w, rec, st, kind, in_dt)
    check_d4_all(w, rec, st, in_dt)
def _bias(rec):
    """The scattering layers compute sqrt(|z|^2 + b^2) - b: their rounding
    error is relative to the magnitude bias b as well (the property says so:
    'plus the magnitude bias for the scattering layers')."""
    b = 0.0
    for key in ("recipe", "recipe2"):
        r = rec.get(key)
        if r and r[0][1] in ("scat", "scat2"):
            try:
                b = max(b, abs(float(r[0][2].get("magbias", 0.0))))
            except Exception:  # noqa
                pass
    return b


def check_d4_all(w, rec, st, in_dt):
    """(iv) for every memory layout the harness knows, not only the one the plan
    drew: the same input values as channels_last / transposed / strided /
    sliced / permuted views against the contiguous copy (every third call of
    the C16 profile; one history-free module serves all of them)."""
    if rec["kind"] != "call" or in_dt not in ("float32", "float64"):
        return
    st["d4_all_seen"] = st.get("d4_all_seen", 0) + 1
    if st["d4_all_seen"] % 3 != 1:
        return
    if rec["op"]["arg"].get("layout") == "unbatched":
        return
    L = fresh(rec["recipe"][0][3])
    oc, mod = _run(lambda: build_from_recipe(L, rec["recipe"]))
    if oc != "ok":
        return
    oc2, v2, _ = _ref_apply(L, rec, mod, contiguous=True)
    if oc2 != "ok":
        return
    s2 = snap(v2)
    try:
        xin = max_abs(snap(make_tensor(rec["op"]["arg"])[1]))
    except Exception:  # noqa
        xin = 0.0
    for lay in COT_LAYOUTS:
        oc1, v1, _ = _ref_apply(L, rec, mod, layout=lay)
        st["strided"] += 1
        if oc1 != oc2:
            w.violation("D4-strided", rec, "%s input: %s, contiguous copy: %s" % (lay, oc1, oc2))
            return
        m = compare(snap(v1), s2, "tol", 16 * EPS.get(in_dt, EPS["float32"]),
                    scale=max(1e-30, max_abs(s2), xin, _bias(rec)))
        if m:
            w.violation("D4-strided", rec, "%s input vs contiguous copy: %s" % (lay, m))
            return


def check_d4(w, rec, st, kind, in_dt):
    # (iv) strided input == contiguous copy
    strided_pyr = kind == "inverse" and (rec["pyr"][3] or any(rec["pyr"][4]))
    if strided_pyr or (kind == "call" and rec["op"]["arg"].get("layout", "contig") != "contig"):
        L = fresh(rec["recipe"][0][3])
        mod = build_from_recipe(L, rec["recipe"])
        oc1, v1, _ = ref_apply(L, rec, mod)
        L = fresh(rec["recipe"][0][3])
        mod = build_from_recipe(L, rec["recipe"])
        oc2, v2, _ = ref_apply(L, rec, mod, contiguous=True)
        st["strided"] += 1
        if oc1 != oc2:
            w.violation("D4-strided", rec, "strided input: %s, contiguous copy: %s" % (oc1, oc2))
        elif oc1 == "ok":
            s2 = snap(v2)
            # relative to the larger of output and input magnitude (a constant
            # input through a highpass channel leaves pure rounding noise)
            if kind == "call":
                xin = abs(rec["op"]["arg"].get("scale", 1.0)) if rec["op"]["arg"].get("fill") else 0.0
                try:
                    xin = max(xin, max_abs(snap(make_tensor(rec["op"]["arg"])[1])))
                except Exception:  # noqa
                    pass
            else:
                xin = max_abs(snap([rec["pyr"][0][0]] + [f[0] for f in rec["pyr"][1] if f is not None]))
            m = compare(snap(v1), s2, "tol", 16 * EPS.get(in_dt, EPS["float32"]),
                        scale=max(1e-30, max_abs(s2), xin, _bias(rec)))
            if m:
                w.violation("D4-strided", rec, "strided input vs contiguous copy: " + m)




def _narrowed(recipe, cur):
    return cur == "float64" and "float32" in dtype_path(recipe)


def _wrong_dtype(s, want, path="out"):
    tag = s[0]
    if tag == "T":
        if s[1] in ("float32", "float64") and s[1] != want:
            return "%s has dtype %s" % (path, s[1])
        return None
    if tag in ("L", "U"):
        for i, e in enumerate(s[1]):
            r = _wrong_dtype(e, want, "%s[%d]" % (path, i))
            if r:
                return r
    return None


# ---------------------------------------------------------------- C18

def check_c18(w, rec, st):
    from . import tables
    tables.check_record_post(w, rec, st)
