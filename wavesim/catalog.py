"""Module families: parameter pools, constructors, input shapes.

Everything here is data + thin glue around the *public* constructors of the
library.  `build()` executes library code and is therefore only called from
inside an operation (sim) or from the reference context.
"""
import numpy as np

from . import env

WAVES = ["haar", "db2", "db3", "db4", "sym4", "coif1", "bior1.3", "bior2.4",
         "bior3.1", "rbio1.3", "db7", "db12", "sym8", "coif3", "bior4.4", "rbio2.4"]
WAVES_SIMPLE = ["haar", "db2", "db3", "bior2.4"]
DWT_MODES = ["zero", "symmetric", "reflect", "periodization", "periodic"]
BIORTS = ["antonini", "legall", "near_sym_a", "near_sym_b"]
QSHIFTS = ["qshift_06", "qshift_a", "qshift_b", "qshift_c", "qshift_d"]
SCAT_BIORTS = ["near_sym_a", "near_sym_b", "near_sym_b_bp"]
# valid (o_dim, ri_dim) pairs for 6-D DTCWT outputs (N,C,6,H,W,2) and friends
ODIM_RIDIM = [(2, -1), (1, -1), (2, 1), (1, 2), (2, 3), (3, -1), (4, -1), (-2, -1)]

SIZES_2D = [2, 3, 4, 5, 7, 8, 9, 12, 16, 17, 24, 31, 32, 33]
SIZES_DT = [4, 6, 8, 10, 12, 14, 16, 17, 18, 20, 24, 27, 32]
SIZES_SC = [8, 10, 12, 15, 16, 20, 24, 29, 32]
SIZES_1D = [2, 3, 5, 8, 9, 16, 17, 31, 32, 33, 64, 65]

FWD_FAMILIES = ["dwt1f", "dwt2f", "dtf", "scat", "scat2", "swt", "dt2f"]
INV_OF = {"dwt1f": "dwt1i", "dwt2f": "dwt2i", "dtf": "dti"}
FWD_OF = {v: k for k, v in INV_OF.items()}
ALL_FAMILIES = FWD_FAMILIES + list(FWD_OF)
INPUT_RANK = {"dwt1f": 3, "dwt2f": 4, "dtf": 4, "scat": 4, "scat2": 4, "swt": 4, "dt2f": 4}


def _pick(rng, seq):
    return seq[rng.randrange(len(seq))]


def gen_wave(rng, simple=False):
    name = _pick(rng, WAVES_SIMPLE if simple else WAVES)
    r = rng.random()
    if r < 0.55:
        return {"kind": "name", "name": name}
    if r < 0.63:
        return {"kind": "pywt", "name": name}
    if r < 0.7:
        # a user-defined pywt.Wavelet: arbitrary label, explicit filter bank
        return {"kind": "pywt_custom", "name": name, "label": _pick(rng, ["custom", "w", "db2"])}
    if r < 0.9:
        return {"kind": "tuple2", "name": name}
    return {"kind": "tuple4", "name": name, "name2": _pick(rng, WAVES_SIMPLE)}


def gen_params(family, rng, simple=False):
    """JSON-serialisable construction parameters for one module."""
    if family in ("dwt1f", "dwt1i"):
        w = gen_wave(rng, simple)
        if w["kind"] == "tuple4":
            w = {"kind": "tuple2", "name": w["name"]}
        p = {"wave": w, "mode": _pick(rng, DWT_MODES)}
        if family == "dwt1f":
            p["J"] = rng.randrange(1, 4) if rng.random() < 0.95 else rng.randrange(4, 7)
        return p
    if family in ("dwt2f", "dwt2i", "swt"):
        p = {"wave": gen_wave(rng, simple), "mode": _pick(rng, DWT_MODES)}
        if family == "swt":
            p["mode"] = _pick(rng, ["periodization", "periodic", "zero", "symmetric"])
        if family != "dwt2i":
            p["J"] = rng.randrange(1, 4) if rng.random() < 0.95 else rng.randrange(4, 6)
        return p
    if family in ("dtf", "dti"):
        p = {"biort": _pick(rng, BIORTS), "qshift": _pick(rng, QSHIFTS)}
        r = rng.random()
        if r < 0.15:
            p["biort_tuple"] = True
        elif r < 0.3:
            p["qshift_tuple"] = True
        if r < 0.3 and rng.random() < 0.4:
            # the loader's own arrays, not copies of them
            p["tuple_alias"] = True
        elif r < 0.36:
            # an argument TYPE the pinned constructors reject (TypeError): a
            # user-labelled pywt.Wavelet as level-1 filter set
            p["biort_pywt"] = {"name": _pick(rng, ["bior4.4", "bior2.2", "bior2.4", "rbio4.4"]),
                               "label": _pick(rng, ["proto", "w"])}
        od, ri = _pick(rng, ODIM_RIDIM) if rng.random() < 0.4 else (2, -1)
        p["o_dim"], p["ri_dim"] = od, ri
        p["mode"] = "symmetric" if rng.random() < 0.85 else "zero"
        if family == "dtf":
            J = rng.randrange(0, 4) if rng.random() < 0.1 else rng.randrange(1, 4)
            p["J"] = J
            r = rng.random()
            if r < 0.6 or J == 0:
                p["skip_hps"] = False
            elif r < 0.7:
                p["skip_hps"] = True
            else:
                p["skip_hps"] = [rng.random() < 0.4 for _ in range(J)]
            r = rng.random()
            if r < 0.6 or J == 0:
                p["include_scale"] = False
            elif r < 0.7:
                p["include_scale"] = True
            else:
                p["include_scale"] = [rng.random() < 0.5 for _ in range(J)]
        return p
    if family == "dt2f":
        # the 4-DWT dual tree of dtcwt/lowlevel2.py (nothing imports it by default)
        return {"biort": _pick(rng, ["farras", "farras", "near_sym_a2"]), "qshift": _pick(rng, QSHIFTS),
                "J": rng.randrange(1, 4), "mode": _pick(rng, ["symmetric", "zero", "periodization"])}
    if family == "scat":
        return {"biort": _pick(rng, SCAT_BIORTS),
                "mode": "symmetric" if rng.random() < 0.8 else "zero",
                "magbias": _pick(rng, [1e-2, 0.1, 1e-3]),
                "combine_colour": rng.random() < 0.2}
    if family == "scat2":
        b = _pick(rng, SCAT_BIORTS)
        q = "qshift_b_bp" if b == "near_sym_b_bp" else _pick(rng, QSHIFTS)
        return {"biort": b, "qshift": q,
                "mode": "symmetric" if rng.random() < 0.95 else "zero",
                "magbias": _pick(rng, [1e-2, 0.1, 1e-3]),
                "combine_colour": rng.random() < 0.2}
    raise ValueError(family)


def inverse_params(fwd_family, p, rng):
    """Parameters of an inverse module matching forward params p."""
    if fwd_family in ("dwt1f", "dwt2f"):
        return {"wave": dict(p["wave"]), "mode": p["mode"]}
    if fwd_family == "dtf":
        q = {"biort": p["biort"], "qshift": p["qshift"],
             "o_dim": p["o_dim"], "ri_dim": p["ri_dim"], "mode": p["mode"]}
        if p.get("biort_pywt"):
            q["biort_pywt"] = dict(p["biort_pywt"])
        if p.get("biort_tuple"):
            q["biort_tuple"] = True
        if p.get("qshift_tuple"):
            q["qshift_tuple"] = True
        return q
    raise ValueError(fwd_family)


def _wave_arg(w, inverse, given=None):
    """`given` collects (array, bytes at hand-over) for every ndarray handed
    to the constructor, so the caller can check they come back untouched."""
    r = _wave_arg0(w, inverse)
    if isinstance(r, tuple) and given is not None:
        given.extend((a, a.tobytes()) for a in r)
    return r


def _wave_arg0(w, inverse):
    import pywt
    kind = w["kind"]
    if kind == "name":
        return w["name"]
    wv = pywt.Wavelet(w["name"])
    if kind == "pywt":
        return wv
    if kind == "pywt_custom":
        return pywt.Wavelet(w["label"], filter_bank=wv.filter_bank)
    lo, hi = (wv.rec_lo, wv.rec_hi) if inverse else (wv.dec_lo, wv.dec_hi)
    if kind == "tuple2":
        return (np.array(lo), np.array(hi))
    wv2 = pywt.Wavelet(w["name2"])
    lo2, hi2 = (wv2.rec_lo, wv2.rec_hi) if inverse else (wv2.dec_lo, wv2.dec_hi)
    return (np.array(lo), np.array(hi), np.array(lo2), np.array(hi2))


BASE_INIT = {
    "DWT1DForward": ["J", "wave", "mode"], "DWT1DInverse": ["wave", "mode"],
    "DWTForward": ["J", "wave", "mode"], "DWTInverse": ["wave", "mode"],
    "SWTForward": ["J", "wave", "mode"],
    "DTCWTForward": ["biort", "qshift", "J", "skip_hps", "include_scale", "o_dim", "ri_dim", "mode"],
    "DTCWTInverse": ["biort", "qshift", "o_dim", "ri_dim", "mode"],
    "ScatLayer": ["biort", "mode", "magbias", "combine_colour"],
    "ScatLayerj2": ["biort", "qshift", "mode", "magbias", "combine_colour"],
    "DTCWTForward2": ["biort", "qshift", "J", "mode"],
}


_LIT = {}


def harvested_literals(cls, pname):
    """Short string literals on source lines of the class's module that mention
    parameter `pname` (e.g. `if normalize not in ('l1', 'l2')`): the values a
    new enum-like option is likely to accept."""
    import inspect
    import re
    import sys as _sys
    key = (cls.__module__, pname)
    if key not in _LIT:
        out = []
        try:
            src = inspect.getsource(_sys.modules[cls.__module__])
        except Exception:  # noqa
            src = ""
        for ln in src.splitlines():
            if re.search(r"\b%s\b" % re.escape(pname), ln) and not ln.lstrip().startswith("#"):
                for mt in re.finditer(r"['\"]([A-Za-z0-9_\-\.]{1,12})['\"]", ln):
                    if mt.group(1) not in out and mt.group(1) != pname:
                        out.append(mt.group(1))
        _LIT[key] = out[:8]
    return _LIT[key]


def fuzz_kwargs(cls, fuzz):
    """Keyword arguments for constructor parameters the pinned class does not
    have (a change under test may add options): booleans flipped, None given a
    plausible value, numbers nudged - chosen by the bits of `fuzz`. Part of the
    recorded construction parameters, so simulation and reference agree."""
    import inspect
    if not fuzz:
        return {}
    try:
        params = list(inspect.signature(cls.__init__).parameters.values())[1:]
    except (TypeError, ValueError):
        return {}
    base = BASE_INIT.get(cls.__name__, [])
    out = {}
    bit = 0
    for prm in params:
        if prm.name in base or prm.kind not in (prm.POSITIONAL_OR_KEYWORD, prm.KEYWORD_ONLY):
            continue
        on = (fuzz >> (bit % 4)) & 1
        bit += 1
        if not on:
            continue
        if isinstance(prm.default, bool):
            out[prm.name] = not prm.default
        elif prm.default is None or isinstance(prm.default, str):
            lits = harvested_literals(cls, prm.name)
            if lits and (fuzz >> 2) % 4 != 3:
                out[prm.name] = lits[(fuzz >> 1) % len(lits)]
            elif prm.default is None:
                out[prm.name] = [True, 1, "float32"][fuzz % 3]
            elif "dtype" in prm.name.lower():
                out[prm.name] = "float32"
        elif isinstance(prm.default, (int, float)):
            out[prm.name] = prm.default + 1
    return out


def build(family, p, given=None):
    """Run the library constructor for (family, params)."""
    return _build(family, p, given)


_PRECISION = {"float32": "float32", "float": "float32", "single": "float32",
              "torch.float32": "float32", "torch.float": "float32",
              "float64": "float64", "double": "float64", "torch.float64": "float64",
              "torch.double": "float64"}


def _is_precision_kw(name):
    n = name.lower()
    return "dtype" in n or "precision" in n


def _ctor(cls, p, **kw):
    fz = fuzz_kwargs(cls, p.get("fuzz", 0))
    if p.get("dtype_as"):
        # "constructed in that precision": an explicit precision keyword that a
        # change under test added asks for the precision being compared with
        for k, v in fz.items():
            if _is_precision_kw(k) and _PRECISION.get(str(v)):
                fz[k] = p["dtype_as"]
    kw.update(fz)
    return cls(**kw)


def family_class(family):
    L = env.lib()
    pw = L.pw
    return {"dwt1f": pw.DWT1DForward, "dwt1i": pw.DWT1DInverse, "dwt2f": pw.DWTForward,
            "dwt2i": pw.DWTInverse, "swt": L.dwt_t2.SWTForward, "dtf": pw.DTCWTForward,
            "dti": pw.DTCWTInverse, "dt2f": getattr(L.ll2, "DTCWTForward2", None),
            "scat": pw.ScatLayer, "scat2": pw.ScatLayerj2}.get(family)


def explicit_dtype(family, p):
    """The precision an explicit constructor keyword asks for (a `dtype=` option
    that a change under test added and the keyword fuzz exercises), else None:
    the construction precision is then the keyword's, not the default dtype's."""
    if not p.get("fuzz"):
        return None
    cls = family_class(family)
    if cls is None:
        return None
    for k, v in fuzz_kwargs(cls, p["fuzz"]).items():
        if _is_precision_kw(k) and _PRECISION.get(str(v)):
            return _PRECISION[str(v)]
    return None


def _build(family, p, given=None):
    L = env.lib()
    pw = L.pw
    if family == "dwt1f":
        return _ctor(pw.DWT1DForward, p, J=p["J"], wave=_wave_arg(p["wave"], False, given), mode=p["mode"])
    if family == "dwt1i":
        return _ctor(pw.DWT1DInverse, p, wave=_wave_arg(p["wave"], True, given), mode=p["mode"])
    if family == "dwt2f":
        return _ctor(pw.DWTForward, p, J=p["J"], wave=_wave_arg(p["wave"], False, given), mode=p["mode"])
    if family == "dwt2i":
        return _ctor(pw.DWTInverse, p, wave=_wave_arg(p["wave"], True, given), mode=p["mode"])
    if family == "swt":
        return _ctor(L.dwt_t2.SWTForward, p, J=p["J"], wave=_wave_arg(p["wave"], False, given), mode=p["mode"])
    if family in ("dtf", "dti"):
        biort, qshift = p["biort"], p["qshift"]
        inv = family == "dti"
        if p.get("biort_pywt"):
            import pywt
            bw = p["biort_pywt"]
            biort = pywt.Wavelet(bw["label"], filter_bank=pywt.Wavelet(bw["name"]).filter_bank)
        if p.get("biort_tuple"):
            t = [a if p.get("tuple_alias") else a.copy() for a in L.coeffs.biort(biort)]
            biort = (t[1], t[3]) if inv else (t[0], t[2])
            if given is not None:
                given.extend((a, a.tobytes()) for a in biort)
        if p.get("qshift_tuple"):
            t = [a if p.get("tuple_alias") else a.copy() for a in L.coeffs.qshift(qshift)]
            qshift = (t[2], t[3], t[6], t[7]) if inv else (t[0], t[1], t[4], t[5])
            if given is not None:
                given.extend((a, a.tobytes()) for a in qshift)
        if inv:
            return _ctor(pw.DTCWTInverse, p, biort=biort, qshift=qshift, o_dim=p["o_dim"],
                         ri_dim=p["ri_dim"], mode=p["mode"])
        sk = p["skip_hps"]
        inc = p["include_scale"]
        return _ctor(pw.DTCWTForward, p, biort=biort, qshift=qshift, J=p["J"],
                     skip_hps=list(sk) if isinstance(sk, list) else sk,
                     include_scale=list(inc) if isinstance(inc, list) else inc,
                     o_dim=p["o_dim"], ri_dim=p["ri_dim"], mode=p["mode"])
    if family == "dt2f":
        return _ctor(L.ll2.DTCWTForward2, p, biort=p["biort"], qshift=p["qshift"], J=p["J"],
                     mode=p["mode"])
    if family == "scat":
        return _ctor(pw.ScatLayer, p, biort=p["biort"], mode=p["mode"], magbias=p["magbias"],
                     combine_colour=p["combine_colour"])
    if family == "scat2":
        return _ctor(pw.ScatLayerj2, p, biort=p["biort"], qshift=p["qshift"], mode=p["mode"],
                     magbias=p["magbias"], combine_colour=p["combine_colour"])
    raise ValueError(family)


def gen_input_spec(family, p, rng, dtype=None, small=False):
    """A tensor spec suitable as input of a forward-family module."""
    from .tensors import LAYOUTS
    N = _pick(rng, [1, 1, 2, 3])
    C = _pick(rng, [1, 1, 2, 3])
    if family in ("scat", "scat2") and p.get("combine_colour"):
        C = 3
    if family == "dwt1f":
        shape = [N, C, _pick(rng, SIZES_1D[:6] if small else SIZES_1D)]
    elif family in ("dwt2f", "swt"):
        pool = SIZES_2D[:9] if small else SIZES_2D
        shape = [N, C, _pick(rng, pool), _pick(rng, pool)]
    elif family in ("dtf", "dt2f"):
        pool = SIZES_DT[:7] if small else SIZES_DT
        shape = [N, C, _pick(rng, pool), _pick(rng, pool)]
    else:
        pool = SIZES_SC[:5] if small else SIZES_SC
        shape = [N, C, _pick(rng, pool), _pick(rng, pool)]
    if dtype is None:
        dtype = "float32" if rng.random() < 0.6 else "float64"
    layout = "contig" if rng.random() < 0.6 else _pick(rng, LAYOUTS)
    if rng.random() < 0.04:
        layout = "unbatched"      # wrong rank today; judged like any other input if accepted
    r = rng.random()
    if r < 0.02:
        shape[-1] = _pick(rng, [66, 96, 130])      # beyond any plausible small-size threshold
    elif r < 0.03:
        shape[0] = 0                               # empty batch
    elif r < 0.04:
        shape[1] = 3 if (family in ("scat", "scat2") and p.get("combine_colour")) else 5
    elif r < 0.065:
        # a batch beyond any plausible small-batch threshold (chunked / slab code
        # paths), on the smallest images so that it stays cheap
        shape[0] = _pick(rng, [33, 40, 65, 130])
        for i in range(2, len(shape)):
            shape[i] = min(shape[i], 16)
    fill = None
    r = rng.random()
    if r < 0.09:
        fill = ["zeros", "ones", "ints", "ints", "naninf"][int(r * 100) % 5]
    return {"shape": shape, "dtype": dtype, "layout": layout, "fill": fill,
            "seed": rng.randrange(1 << 30),
            # 1e-39 / 1e-309: values in the denormal range of the dtype
            "scale": _pick(rng, [1.0, 1.0, 1.0, 1e-3, 50.0, 1.0, 1e-3, 50.0, 1.0,
                                 1e-39 if dtype == "float32" else 1e-309])}


def canary_spec(family, dtype):
    """Fixed probe input per family (end-of-run canary calls)."""
    shape = {"dwt1f": [1, 2, 17], "dwt2f": [1, 2, 9, 12], "swt": [1, 1, 8, 8],
             "dtf": [1, 2, 12, 10], "scat": [1, 3, 10, 12], "scat2": [1, 3, 16, 12],
             "dt2f": [1, 2, 16, 12]}[family]
    return {"shape": shape, "dtype": dtype, "layout": "contig", "seed": 12345, "scale": 1.0}


def module_dtype(mod):
    """dtype of a module's filters (buffers or frozen parameters)."""
    for t in list(mod.buffers()) + list(mod.parameters()):
        if t.is_floating_point():
            return t.dtype
    return None
