"""CLI.  python -m wavesim.run check <ID> --tier quick|thorough
                            | replay <file> | one <profile> <seed> | selftest
"""
import sys

from . import env

env.bootstrap()


def main(argv):
    from . import driver
    return driver.main(argv)


if __name__ == "__main__":
    sys.exit(main(sys.argv[1:]))
