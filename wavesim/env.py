"""Process bootstrap: pinned environment, /repo first on sys.path, guards.

Every entry point calls `bootstrap()` before importing torch.
"""
import os
import sys

REPO = os.path.realpath(os.environ.get("WAVESIM_REPO", "/repo"))
VERIF = os.path.dirname(os.path.dirname(os.path.abspath(__file__)))
LIB_PREFIX = os.path.join(REPO, "pytorch_wavelets") + os.sep

PINNED = {
    "PYTHONHASHSEED": "0",
    "OMP_NUM_THREADS": "1",
    "MKL_NUM_THREADS": "1",
    "PYTHONDONTWRITEBYTECODE": "1",
    "PYTHONWARNINGS": "ignore",
}


class HarnessError(Exception):
    """Something is wrong with the harness or its environment (exit status 2,
    never a verdict about the library)."""


def pinned_env(extra=None):
    env = dict(os.environ)
    env.update(PINNED)
    if extra:
        env.update(extra)
    return env


def bootstrap(reexec=True):
    """Pin the environment (re-exec once if needed) and put REPO first."""
    need = any(os.environ.get(k) != v for k, v in PINNED.items()
               if k != "PYTHONHASHSEED")
    # PYTHONHASHSEED may be overridden on purpose by the determinism self-test
    if "PYTHONHASHSEED" not in os.environ:
        need = True
    if need and reexec and os.environ.get("WAVESIM_REEXEC") != "1":
        env = dict(os.environ)
        for k, v in PINNED.items():
            if k == "PYTHONHASHSEED" and k in env:
                continue
            env[k] = v
        env["WAVESIM_REEXEC"] = "1"
        os.execve(sys.executable, list(sys.orig_argv), env)
    if sys.path[0] != REPO:
        sys.path.insert(0, REPO)
    sys.dont_write_bytecode = True


_lib = None
SCRATCH = None


def _scratch_fs():
    """A private, empty home / temp / cache directory for this process, wiped
    by seams.fresh_library(): a change under test that caches on disk
    (~/.cache, tempfile.gettempdir()) must not carry state from the simulated
    history into the history-free reference."""
    global SCRATCH
    import atexit
    import shutil
    import tempfile
    out = os.path.join(VERIF, "out")
    os.makedirs(out, exist_ok=True)
    SCRATCH = tempfile.mkdtemp(prefix="fs-%d-" % os.getpid(), dir=out)
    for k in ("HOME", "TMPDIR", "TEMP", "TMP", "XDG_CACHE_HOME", "XDG_DATA_HOME",
              "XDG_CONFIG_HOME", "PYTORCH_WAVELETS_CACHE"):
        os.environ[k] = SCRATCH
    tempfile.tempdir = SCRATCH
    atexit.register(shutil.rmtree, SCRATCH, True)



def lib():
    """Import the library under test from REPO and return a namespace of the
    modules the simulator touches."""
    global _lib
    if _lib is not None:
        return _lib
    import warnings
    warnings.filterwarnings("ignore")
    _scratch_fs()
    import torch
    torch.set_num_threads(1)
    import pytorch_wavelets as pw
    if not os.path.realpath(pw.__file__).startswith(LIB_PREFIX):
        raise HarnessError("pytorch_wavelets imported from %s, expected under %s"
                           % (pw.__file__, LIB_PREFIX))
    import pytorch_wavelets.dtcwt.coeffs as coeffs
    import pytorch_wavelets.dwt.lowlevel as dwt_ll
    import pytorch_wavelets.dwt.transform2d as dwt_t2
    import pytorch_wavelets.dwt.transform1d as dwt_t1
    import pytorch_wavelets.dtcwt.transform2d as dt_t2
    import pytorch_wavelets.scatternet as scat
    try:    # imported lazily by pkg_resources on the first table load otherwise
        import pytorch_wavelets.dtcwt.data  # noqa
    except ImportError:
        pass
    for opt in ("pytorch_wavelets.dtcwt.lowlevel2", "pytorch_wavelets.dwt.swt_inverse"):
        try:    # optional modules nothing imports by default; part of the library all the same
            __import__(opt)
        except Exception:  # noqa
            pass
    # every other module the package ships, up front: a module the library
    # imports lazily (inside a function, on first use) would otherwise execute
    # its body inside the first simulated call of the process only - holding the
    # interpreter's real import lock while pre-empted - and never again
    import pkgutil
    for info in sorted(pkgutil.walk_packages(pw.__path__, "pytorch_wavelets."),
                       key=lambda i: i.name):
        if info.name in sys.modules or info.name.rsplit(".", 1)[-1] in ("__main__", "setup"):
            continue
        try:
            __import__(info.name)
        except BaseException:  # noqa
            sys.modules.pop(info.name, None)

    class NS:
        pass
    ns = NS()
    ns.torch = torch
    ns.pw = pw
    ns.coeffs = coeffs
    ns.dwt_ll = dwt_ll
    ns.dwt_t2 = dwt_t2
    ns.dwt_t1 = dwt_t1
    ns.dt_t2 = dt_t2
    ns.scat = scat
    ns.ll2 = sys.modules.get("pytorch_wavelets.dtcwt.lowlevel2")
    ns.orig_resource_stream = coeffs.__dict__.get("resource_stream")
    _lib = ns
    # every run starts with a full gc.collect(); with torch/numpy imported that
    # walks ~10^6 long-lived objects (0.3 s).  Freeze what exists now.
    import gc
    import pywt  # noqa
    import pickle, copy, zipfile  # noqa
    gc.collect()
    gc.freeze()
    return ns
