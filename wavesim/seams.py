"""I/O seam: a faulty byte stream behind `coeffs.resource_stream`, and a fast,
exact re-initialisation of the library's module-level state.

No file under /repo is modified; the seam is the module attribute
`pytorch_wavelets.dtcwt.coeffs.resource_stream` (bound by
`from pkg_resources import resource_stream` in the library).
"""
import errno
import io
import os
import sys
import threading

from . import env

_tls = threading.local()


def set_current_client(cl):
    _tls.client = cl


def current_client():
    return getattr(_tls, "client", None)


class FaultyStream(io.BytesIO):
    """Serves `data`; every read/seek/tell/close is reported to the owning
    simulated client (decision point + fault point)."""

    def __init__(self, data, client, name):
        super().__init__(data)
        self._cl = client
        self._name = name

    def _ev(self, what):
        cl = self._cl
        if cl is not None:
            cl.on_io(what, self._name)

    def read(self, *a):
        self._ev("read")
        return super().read(*a)

    def readinto(self, b):
        self._ev("read")
        return super().readinto(b)

    def seek(self, *a):
        self._ev("seek")
        return super().seek(*a)

    def tell(self):
        self._ev("tell")
        return super().tell()

    def close(self):
        if not self.closed:
            self._ev("close")
        return super().close()


class FaultyFile:
    """A binary file the LIBRARY opened itself (open / io.open / os.fdopen /
    pathlib, importlib.resources): the real file object stays underneath (its
    descriptor is really open and really closed), the bytes are served from
    memory with the run's truncation / inversion applied, and every
    read/seek/tell/close is a decision and fault point of the owning client -
    so that a read error surfaces INSIDE the library's own `with open(...)`."""

    def __init__(self, real, client, name, mod):
        self._real = real
        self._cl = client
        self._name = name
        try:
            self._fd = real.fileno()
        except Exception:  # noqa
            self._fd = None
        data = real.read()
        if mod is not None:
            kind, arg = mod
            if kind == "eof":
                data = data[:arg % (len(data) + 1)]
            elif kind == "flip" and data:
                bit = arg % (len(data) * 8)
                b = bytearray(data)
                b[bit // 8] ^= 1 << (bit % 8)
                data = bytes(b)
        self._buf = io.BytesIO(data)

    def _ev(self, what):
        cl = self._cl
        if cl is not None and current_client() is cl:
            cl.on_io(what, self._name)

    def read(self, *a):
        self._ev("read")
        return self._buf.read(*a)

    read1 = read

    def readinto(self, b):
        self._ev("read")
        return self._buf.readinto(b)

    def readline(self, *a):
        self._ev("read")
        return self._buf.readline(*a)

    def readlines(self, *a):
        self._ev("read")
        return self._buf.readlines(*a)

    def __iter__(self):
        return iter(self.readlines())

    def seek(self, *a):
        self._ev("seek")
        return self._buf.seek(*a)

    def tell(self):
        self._ev("tell")
        return self._buf.tell()

    def close(self):
        if not self._real.closed:
            self._ev("close")
            if self._cl is not None and self._fd is not None:
                self._cl.world.lib_fds.discard(self._fd)
        return self._real.close()

    @property
    def closed(self):
        return self._real.closed

    def fileno(self):
        return self._real.fileno()

    def readable(self):
        return True

    def seekable(self):
        return True

    def writable(self):
        return False

    def __enter__(self):
        return self

    def __exit__(self, *a):
        self.close()
        return False

    def __getattr__(self, name):
        return getattr(self._real, name)


_file_seam = False
_HARNESS_DIR = os.path.dirname(os.path.abspath(__file__))


def _library_caller(depth=2, limit=12):
    """True iff the nearest library-or-harness frame above the caller is a
    library frame (the library, possibly through pathlib / importlib.resources
    / zipfile, is the one opening the file - not the harness, and not the
    harness's own stream seam calling into pkg_resources)."""
    f = sys._getframe(depth)
    n = 0
    while f is not None and n < limit:
        fn = f.f_code.co_filename
        if fn.startswith(env.LIB_PREFIX):
            return True
        if fn.startswith(_HARNESS_DIR):
            return False
        f = f.f_back
        n += 1
    return False


def install_file_seam():
    """Third I/O seam: binary read-only files the library opens by itself."""
    global _file_seam
    if _file_seam:
        return
    _file_seam = True
    import builtins
    real_open = builtins.open
    real_fdopen = os.fdopen

    def _wrap(opener, file, mode, a, k):
        cl = current_client()
        if cl is None or not cl.io_enabled or cl.op is None or not isinstance(mode, str) \
                or "b" not in mode or any(c in mode for c in "wax+") or not _library_caller(3):
            return opener(file, mode, *a, **k)
        if isinstance(file, int):
            base = "fd"
            try:
                base = os.path.basename(os.readlink("/proc/self/fd/%d" % file))
            except OSError:
                pass
        else:
            base = os.path.basename(os.fspath(file)) if not isinstance(file, bytes) \
                else os.path.basename(file).decode("utf8", "replace")
        mod = cl.on_open(base)          # may raise an injected open error
        real = opener(file, mode, *a, **k)
        try:
            return FaultyFile(real, cl, base, mod)
        except BaseException:
            real.close()
            raise

    def sim_open(file, mode="r", *a, **k):
        return _wrap(real_open, file, mode, a, k)

    def sim_fdopen(fd, mode="r", *a, **k):
        return _wrap(real_fdopen, fd, mode, a, k)
    # raw descriptors: the simulator follows which ones the library owns.  A
    # close of a descriptor the library has already closed ("stale close": a
    # double close on an error path) is harmless alone and closes SOMEBODY
    # ELSE's file when another thread was handed that number in between.  The
    # simulated OS plays that legal, adversarial schedule deliberately: the
    # closing client lets the others run until one of them has opened a file
    # (it is parked right after its os.open), does its close, and the parked
    # client resumes once the closer has opened its next file or ended its
    # operation.
    real_os_open = os.open
    real_os_close = os.close

    def sim_os_open(path, flags, *a, **k):
        cl = current_client()
        if cl is None or not cl.io_enabled or cl.op is None or not _library_caller(2):
            return real_os_open(path, flags, *a, **k)
        w = cl.world
        fd = real_os_open(path, flags, *a, **k)
        w.lib_fds.add(fd)
        w.os_opens += 1
        if w.stale_waiter is cl:
            w.stale_waiter = None
        elif w.stale_waiter is not None:
            w.probe("parked_after_open_during_stale_close")
            cl.wait_for(lambda: w.stale_waiter is None)
        return fd

    def sim_os_close(fd):
        cl = current_client()
        if cl is None or not cl.io_enabled or cl.op is None or not _library_caller(2):
            return real_os_close(fd)
        w = cl.world
        if fd in w.lib_fds:
            w.lib_fds.discard(fd)
            return real_os_close(fd)
        w.probe("stale_fd_close")
        if w.stale_waiter is None and len(w.clients) > 1:
            w.stale_waiter = cl
            n0 = w.os_opens
            for _ in range(24):
                if w.os_opens > n0:
                    break
                cl.yield_now()
            if w.os_opens == n0:
                w.stale_waiter = None      # nobody opened anything: nothing to collide with
        return real_os_close(fd)
    sim_os_open._wavesim = sim_os_close._wavesim = True
    sim_open._wavesim = sim_fdopen._wavesim = True
    builtins.open = sim_open
    io.open = sim_open
    os.fdopen = sim_fdopen
    os.open = sim_os_open
    os.close = sim_os_close


_real_np_load = None


def install_numpy_load_seam():
    """Second I/O seam, for library code that stops using
    pkg_resources.resource_stream (deprecated) and opens its tables some other
    way: numpy.load itself serves the file through a FaultyStream when called
    by a simulated client."""
    global _real_np_load
    import numpy as np
    if _real_np_load is not None:
        return
    _real_np_load = np.load

    def load(file, *a, **k):
        cl = current_client()
        if cl is None or not cl.io_enabled or cl.op is None \
                or isinstance(file, (FaultyStream, FaultyFile)) \
                or not sys._getframe(1).f_code.co_filename.startswith(env.LIB_PREFIX):
            # not a simulated client, or the harness's own use of numpy.load
            return _real_np_load(file, *a, **k)
        name = getattr(file, "name", None) if not isinstance(file, (str, bytes)) else file
        if not isinstance(name, (str, bytes)) and not hasattr(name, "__fspath__"):
            # an in-memory buffer: not storage - whatever filled it was the read
            return _real_np_load(file, *a, **k)
        try:
            if hasattr(file, "read"):
                data = file.read()
            else:
                import os
                with open(os.fspath(file), "rb") as fh:
                    data = fh.read()
        except Exception:  # noqa
            return _real_np_load(file, *a, **k)
        import os
        base = os.path.basename(str(name)) if name else "?"
        mod = cl.on_open(base)
        if mod is not None:
            kind, arg = mod
            if kind == "eof":
                data = data[:arg % (len(data) + 1)]
            elif kind == "flip" and data:
                bit = arg % (len(data) * 8)
                b = bytearray(data)
                b[bit // 8] ^= 1 << (bit % 8)
                data = bytes(b)
        return _real_np_load(FaultyStream(data, cl, base), *a, **k)
    load._wavesim = True
    np.load = load
    try:
        import numpy.lib.npyio as npyio
        npyio.load = load
    except Exception:  # noqa
        pass


def _sys_np_load():
    import numpy as np
    return np.load


def make_resource_stream(orig):
    """Replacement for coeffs.resource_stream."""
    def resource_stream(package, name):
        cl = current_client()
        if cl is None or not cl.io_enabled:
            return orig(package, name)
        mod = cl.on_open(name)     # may raise an injected open error
        with orig(package, name) as f:
            data = f.read()
        if mod is not None:
            kind, arg = mod
            if kind == "eof":
                data = data[:arg % (len(data) + 1)]
            elif kind == "flip":
                bit = arg % (len(data) * 8)
                b = bytearray(data)
                b[bit // 8] ^= 1 << (bit % 8)
                data = bytes(b)
        return FaultyStream(data, cl, name)
    resource_stream._wavesim = True
    return resource_stream


OPEN_ERRORS = {
    "FileNotFoundError": lambda: FileNotFoundError(errno.ENOENT, "[sim] no such file"),
    "PermissionError": lambda: PermissionError(errno.EACCES, "[sim] permission denied"),
    "EMFILE": lambda: OSError(errno.EMFILE, "[sim] too many open files"),
}


READ_ERRNO = {"EIO": errno.EIO, "EINTR": errno.EINTR, "EAGAIN": errno.EAGAIN,
              "ETIMEDOUT": errno.ETIMEDOUT}


def read_error(code="EIO"):
    # OSError(errno, msg) yields the matching subclass: InterruptedError,
    # BlockingIOError, TimeoutError for the transient ones
    return OSError(READ_ERRNO.get(code, errno.EIO), "[sim] read failed (%s)" % code)


# ---------------------------------------------------------------------------
# cooperative locks: a change under test may add threading.Lock()s to the
# library.  A real lock held by a parked client would block the baton holder
# in the OS; the library therefore sees simulated locks whose acquire is an
# intercepted synchronisation point.

import threading as _threading

_RealLock = _threading.Lock
_RealRLock = _threading.RLock


class LibraryDeadlock(Exception):
    """All simulated clients wait for locks held by each other."""


class SimLock:
    reentrant = False

    def __init__(self):
        self.owner = None
        self.count = 0

    def _me(self):
        cl = current_client()
        return ("client", cl.idx) if cl is not None else ("thread", _threading.get_ident())

    def acquire(self, blocking=True, timeout=-1):
        me = self._me()
        cl = current_client()
        if cl is not None and cl.op is not None:
            cl.on_sync("acquire")
        if self.owner is None:
            self.owner, self.count = me, 1
            return True
        if self.reentrant and self.owner == me:
            self.count += 1
            return True
        if not blocking:
            return False
        if timeout is not None and timeout >= 0:
            if cl is not None and cl.op is not None:
                cl.yield_now()
                if self.owner is None:
                    self.owner, self.count = me, 1
                    return True
            return False
        if cl is None or cl.op is None:
            raise RuntimeError("[sim] lock held by %r would block a non-simulated thread forever"
                               % (self.owner,))
        cl.wait_for(lambda: self.owner is None)
        self.owner, self.count = me, 1
        return True

    def release(self):
        if self.owner is None:
            raise RuntimeError("release unlocked lock")
        self.count -= 1
        if self.count == 0:
            self.owner = None

    def locked(self):
        return self.owner is not None

    def __enter__(self):
        self.acquire()
        return True

    def __exit__(self, *a):
        self.release()


class SimRLock(SimLock):
    reentrant = True


class SimEvent:
    def __init__(self):
        self._flag = False

    def is_set(self):
        return self._flag

    isSet = is_set

    def set(self):
        self._flag = True

    def clear(self):
        self._flag = False

    def wait(self, timeout=None):
        cl = current_client()
        if cl is not None and cl.op is not None:
            cl.on_sync("event-wait")
        if self._flag:
            return True
        if cl is None or cl.op is None:
            return self._flag
        if timeout is not None:
            # a timed wait: everybody else runs first, then it may time out
            cl.yield_now()
            return self._flag
        cl.wait_for(lambda: self._flag)
        return True


class SimCondition:
    """Condition with notify == notify_all (spurious wake-ups are allowed by
    the Condition contract)."""

    def __init__(self, lock=None):
        self._lock = lock if lock is not None else SimRLock()
        self._gen = 0
        self.acquire = self._lock.acquire
        self.release = self._lock.release

    def __enter__(self):
        return self._lock.__enter__()

    def __exit__(self, *a):
        return self._lock.__exit__(*a)

    def wait(self, timeout=None):
        cl = current_client()
        gen = self._gen
        owner, count = self._lock.owner, self._lock.count
        self._lock.owner, self._lock.count = None, 0
        try:
            if cl is not None and cl.op is not None:
                cl.on_sync("cond-wait")
                if timeout is None:
                    cl.wait_for(lambda: self._gen != gen)
                elif self._gen == gen:
                    # a timed wait: everybody else runs first, then it may time out
                    cl.yield_now()
            return self._gen != gen
        finally:
            if cl is not None and cl.op is not None and self._lock.owner is not None:
                cl.wait_for(lambda: self._lock.owner is None)
            self._lock.owner, self._lock.count = owner, count

    def wait_for(self, predicate, timeout=None):
        r = predicate()
        while not r:
            self.wait(timeout)
            r = predicate()
            if timeout is not None:
                break
        return r

    def notify(self, n=1):
        self._gen += 1

    def notify_all(self):
        self._gen += 1

    notifyAll = notify_all


class SimSemaphore:
    def __init__(self, value=1):
        self._value = value

    def acquire(self, blocking=True, timeout=None):
        cl = current_client()
        if cl is not None and cl.op is not None:
            cl.on_sync("sem-acquire")
        if self._value <= 0:
            if not blocking or timeout is not None or cl is None or cl.op is None:
                return False
            cl.wait_for(lambda: self._value > 0)
        self._value -= 1
        return True

    def release(self, n=1):
        self._value += n

    def __enter__(self):
        self.acquire()
        return self

    def __exit__(self, *a):
        self.release()


import concurrent.futures as _cf
import queue as _queue


class SimFuture(_cf.Future):
    """concurrent.futures.Future whose waiters park in the scheduler."""

    def __init__(self):
        super().__init__()
        self._condition = SimCondition()


class SimExecutor:
    """ThreadPoolExecutor as the library sees it: the submitted callable runs to
    completion in the submitting client (a legal schedule of a real pool: the
    worker picks the task up at once and is never pre-empted by its submitter);
    its line events are pre-emption and fault points like any other."""

    def __init__(self, *a, **k):
        pass

    def submit(self, fn, /, *a, **k):
        f = SimFuture()
        try:
            f.set_result(fn(*a, **k))
        except Exception as e:  # noqa
            f.set_exception(e)
        return f

    def map(self, fn, *its, timeout=None, chunksize=1):
        fs = [self.submit(fn, *args) for args in zip(*its)]
        return (f.result() for f in fs)

    def shutdown(self, wait=True, cancel_futures=False):
        pass

    def __enter__(self):
        return self

    def __exit__(self, *a):
        return False


def _sim_queue(base):
    class _Q(base):
        def __init__(self, maxsize=0):
            super().__init__(maxsize)
            self.mutex = SimLock()
            self.not_empty = SimCondition(self.mutex)
            self.not_full = SimCondition(self.mutex)
            self.all_tasks_done = SimCondition(self.mutex)
    _Q.__name__ = "Sim" + base.__name__
    return _Q


SimQueue = _sim_queue(_queue.Queue)
SimLifoQueue = _sim_queue(_queue.LifoQueue)
SimPriorityQueue = _sim_queue(_queue.PriorityQueue)


class _ModuleProxy:
    def __init__(self, real, **over):
        self.__dict__["_real"] = real
        self.__dict__.update(over)

    def __getattr__(self, name):
        return getattr(self._real, name)


_cf_proxy = _ModuleProxy(_cf, Future=SimFuture, ThreadPoolExecutor=SimExecutor)
_queue_proxy = _ModuleProxy(_queue, Queue=SimQueue, LifoQueue=SimLifoQueue,
                            PriorityQueue=SimPriorityQueue)
_SUBST = {id(_cf): _cf_proxy, id(_queue): _queue_proxy, id(_cf.Future): SimFuture,
          id(_cf.ThreadPoolExecutor): SimExecutor, id(_queue.Queue): SimQueue,
          id(_queue.LifoQueue): SimLifoQueue, id(_queue.PriorityQueue): SimPriorityQueue}


class _TimeProxy:
    """`time` as the library sees it: a simulated clock (advanced by sleeps and
    a microsecond per reading) and sleeps that yield to the scheduler."""

    def __init__(self):
        self.now = 1.7e9

    def reset(self):
        self.now = 1.7e9

    def sleep(self, secs):
        self.now += max(0.0, float(secs))
        cl = current_client()
        if cl is not None and cl.op is not None:
            cl.yield_now()

    def _tick(self):
        self.now += 1e-6
        return self.now

    def time(self):
        return self._tick()

    def monotonic(self):
        return self._tick() - 1.7e9

    perf_counter = monotonic

    def time_ns(self):
        return int(self._tick() * 1e9)

    def monotonic_ns(self):
        return int((self._tick() - 1.7e9) * 1e9)

    perf_counter_ns = monotonic_ns

    def __getattr__(self, name):
        import time as _t
        return getattr(_t, name)


_time_proxy = _TimeProxy()


class _ThreadingProxy:
    """`threading` as the library sees it."""
    Lock = SimLock
    RLock = SimRLock
    Event = SimEvent
    Condition = SimCondition
    Semaphore = SimSemaphore
    BoundedSemaphore = SimSemaphore

    def __getattr__(self, name):
        return getattr(_threading, name)


_threading_proxy = _ThreadingProxy()


def _patch_library_locks(mods):
    for m in mods:
        d = m.__dict__
        import time as _real_time
        for k, v in list(d.items()):
            if v is _threading:
                d[k] = _threading_proxy
            elif v is _real_time:
                d[k] = _time_proxy
            elif v is _real_time.sleep:
                d[k] = _time_proxy.sleep
            elif v is _real_time.time:
                d[k] = _time_proxy.time
            elif v is _real_time.monotonic:
                d[k] = _time_proxy.monotonic
            elif v is _real_time.perf_counter:
                d[k] = _time_proxy.perf_counter
            elif v is _RealLock:
                d[k] = SimLock
            elif v is _RealRLock:
                d[k] = SimRLock
            elif v is _threading.Event:
                d[k] = SimEvent
            elif v is _threading.Condition:
                d[k] = SimCondition
            elif v is _threading.Semaphore or v is _threading.BoundedSemaphore:
                d[k] = SimSemaphore
            elif id(v) in _SUBST:
                d[k] = _SUBST[id(v)]


# ---------------------------------------------------------------------------
# fresh library state

_ORDER = [
    "pytorch_wavelets._version",
    "pytorch_wavelets.utils",
    "pytorch_wavelets.dwt.lowlevel",
    "pytorch_wavelets.dtcwt.data",
    "pytorch_wavelets.dtcwt.coeffs",
    "pytorch_wavelets.dtcwt.lowlevel",
    "pytorch_wavelets.dtcwt.transform_funcs",
    "pytorch_wavelets.dwt.transform1d",
    "pytorch_wavelets.dwt.transform2d",
    "pytorch_wavelets.dtcwt.transform2d",
    "pytorch_wavelets.dwt.swt_inverse",
    "pytorch_wavelets.dtcwt.lowlevel2",
    "pytorch_wavelets.dtcwt",
    "pytorch_wavelets.scatternet.lowlevel",
    "pytorch_wavelets.scatternet.layers",
    "pytorch_wavelets.scatternet",
    "pytorch_wavelets",
]
_code = {}
_not_reloadable = set()


_baseline = None
KNOB_SHIFT = 0          # set per run from the plan (world.run_plan); see _shrink_new_constants
_API = None


_SHIFT_OK = {}
KNOB_VETOED = 0


def effective_shift(shift):
    """Shrinking the new numeric constants is a configuration variation that must
    leave the library usable: if, with the shrunk values, a shipped table no
    longer loads in a pristine library without any fault (the constant was a
    validity bound, not a tuning knob), the shrinking is vetoed for this
    process - deterministically, a pure function of the code and the shift."""
    global KNOB_SHIFT, KNOB_VETOED
    if not shift:
        return 0
    if shift not in _SHIFT_OK:
        from . import tables
        KNOB_SHIFT = shift
        try:
            _SHIFT_OK[shift] = tables.knob_probe()
        finally:
            KNOB_SHIFT = 0
    if not _SHIFT_OK[shift]:
        KNOB_VETOED += 1
        return 0
    return shift


def _knob(value):
    """Value of a new numeric module-level constant for this run."""
    if KNOB_SHIFT and not isinstance(value, bool):
        if isinstance(value, int) and value >= 64:
            return max(4, value >> KNOB_SHIFT)
        if isinstance(value, float) and value >= 64:
            return max(4.0, value / (2 ** KNOB_SHIFT))
    return value


def _knobify(src, filename, modname):
    """Parse a library module and wrap the value of every module-level
    `UPPER_CASE = <numeric constant expression>` assignment that the pinned tree
    does not have in `__wavesim_knob__(...)`, so that the shrunk value is already
    in force while the module body executes (default arguments, decorators and
    closures bind it).  Line numbers are kept."""
    import ast
    import json
    import os
    global _API
    if _API is None:
        with open(os.path.join(os.path.dirname(__file__), "api_baseline.json")) as f:
            _API = json.load(f)
    have = set(_API.get("__consts__", {}).get(modname, ()))
    try:
        tree = ast.parse(src, filename)
    except SyntaxError:
        return src

    def numeric(node):
        if isinstance(node, ast.Constant):
            return isinstance(node.value, (int, float)) and not isinstance(node.value, bool)
        if isinstance(node, ast.BinOp):
            return numeric(node.left) and numeric(node.right)
        if isinstance(node, ast.UnaryOp):
            return numeric(node.operand)
        return False
    changed = False
    for node in tree.body:
        if isinstance(node, ast.Assign) and len(node.targets) == 1 \
                and isinstance(node.targets[0], ast.Name) and node.targets[0].id.isupper() \
                and node.targets[0].id not in have and numeric(node.value):
            call = ast.Call(func=ast.Name(id="__wavesim_knob__", ctx=ast.Load()),
                            args=[node.value], keywords=[])
            node.value = ast.copy_location(call, node.value)
            changed = True
    # numeric literals >= 512 inside function bodies (size thresholds written in
    # line: `if x.numel() > 2 ** 16`, `chunk = 65536`): the pinned tree has none
    # (its largest literal is 180), so every one of them is new
    def value_of(node):
        try:
            return eval(compile(ast.Expression(body=node), filename, "eval"), {"__builtins__": {}})
        except Exception:  # noqa
            return None

    class Wrap(ast.NodeTransformer):
        def __init__(self):
            self.depth = 0
            self.changed = False

        def visit_FunctionDef(self, node):
            self.depth += 1
            self.generic_visit(node)
            self.depth -= 1
            return node
        visit_AsyncFunctionDef = visit_FunctionDef
        visit_Lambda = visit_FunctionDef

        def visit_Call(self, node):
            if isinstance(node.func, ast.Name) and node.func.id == "__wavesim_knob__":
                return node
            return self.generic_visit(node)

        def wrap(self, node):
            v = value_of(node)
            if isinstance(v, (int, float)) and not isinstance(v, bool) and v >= 512:
                self.changed = True
                call = ast.Call(func=ast.Name(id="__wavesim_knob__", ctx=ast.Load()),
                                args=[node], keywords=[])
                return ast.copy_location(call, node)
            return None

        def visit_Constant(self, node):
            if self.depth and isinstance(node.value, (int, float)) and not isinstance(node.value, bool):
                return self.wrap(node) or node
            return node

        def visit_BinOp(self, node):
            if self.depth and numeric(node):
                return self.wrap(node) or node
            return self.generic_visit(node)
    wr = Wrap()
    tree = wr.visit(tree)
    if not changed and not wr.changed:
        return src
    ast.fix_missing_locations(tree)
    return tree


def _shrink_new_constants(mods):
    """Tuning knobs: numeric module-level constants that a change under test
    ADDS to the library (thresholds, chunk / cache sizes: UPPER_CASE ints or
    floats >= 64 that the pinned tree does not have) are divided by 2**KNOB_SHIFT
    for this run - in the simulation and in its reference alike - so that the
    code behind a size threshold runs with the small inputs the simulator draws
    ("a cache too large for the miss path to run is the classic blind spot")."""
    global _API
    if not KNOB_SHIFT:
        return
    import json
    import os
    if _API is None:
        with open(os.path.join(os.path.dirname(__file__), "api_baseline.json")) as f:
            _API = json.load(f)
    known = _API.get("__consts__", {})
    for m in mods:
        have = set(known.get(m.__name__, ()))
        for k, v in list(m.__dict__.items()):
            if k in have or not k.isupper() or isinstance(v, bool):
                continue
            if isinstance(v, int) and v >= 64:
                m.__dict__[k] = max(4, v >> KNOB_SHIFT)
            elif isinstance(v, float) and v >= 64:
                m.__dict__[k] = max(4.0, v / (2 ** KNOB_SHIFT))


def _reset_process_state():
    """Undo what a change under test may have stashed outside the library's own
    modules: attributes added to torch / numpy / builtins / sys / os / pywt (and
    torch.Tensor, nn.Module) since the library was first imported, the process
    environment, and files in the private home/temp directory.  On the pinned
    tree none of these ever change (probed over 360 runs)."""
    global _baseline
    import builtins
    import os
    import shutil
    import numpy
    import pywt
    import torch
    import torch.nn.functional as F
    spaces = {"torch": torch, "numpy": numpy, "builtins": builtins, "sys": sys, "os": os,
              "torch.nn": torch.nn, "F": F, "autograd": torch.autograd, "pywt": pywt,
              "Tensor": torch.Tensor, "Module": torch.nn.Module}
    if _baseline is None:
        _baseline = ({k: set(vars(m)) for k, m in spaces.items()}, dict(os.environ))
        return
    # torch / numpy process- or thread-wide switches a library call might flip
    try:
        torch.set_flush_denormal(False)      # per-thread CPU state (MXCSR)
        if torch.get_num_threads() != 1:
            torch.set_num_threads(1)
        if torch.are_deterministic_algorithms_enabled():
            torch.use_deterministic_algorithms(False)
        if not torch.backends.mkldnn.enabled:
            torch.backends.mkldnn.enabled = True
    except Exception:  # noqa
        pass
    base, envb = _baseline
    for k, m in spaces.items():
        for name in set(vars(m)) - base[k]:
            if name.startswith("__"):
                continue
            try:
                delattr(m, name)
            except Exception:  # noqa
                pass
    if dict(os.environ) != envb:
        os.environ.clear()
        os.environ.update(envb)
    sc = env.SCRATCH
    if sc and os.path.isdir(sc):
        for entry in os.listdir(sc):
            pth = os.path.join(sc, entry)
            if os.path.isdir(pth) and not os.path.islink(pth):
                shutil.rmtree(pth, True)
            else:
                try:
                    os.remove(pth)
                except OSError:
                    pass


def fresh_library(patch_stream=False):
    """Re-execute the library's module bodies (in dependency order) inside
    their existing module objects: every module-level global (COEFF_CACHE, any
    memo table, class attributes) is back to its import-time value.  Code
    objects are compiled once per process, so this costs ~1 ms."""
    L = env.lib()
    _reset_process_state()
    known = set(_ORDER)
    extra = []
    for name in sorted(sys.modules):
        if name.startswith("pytorch_wavelets") and name not in known \
                and sys.modules[name] is not None:
            f = getattr(sys.modules[name], "__file__", None)
            if f and f.endswith(".py"):
                extra.append(name)   # modules added by a change under test
    mods = []
    # module-level locks are created while the bodies execute
    _threading.Lock, _threading.RLock = SimLock, SimRLock
    _saved = (_threading.Event, _threading.Condition, _threading.Semaphore,
              _threading.BoundedSemaphore)
    _threading.Event, _threading.Condition = SimEvent, SimCondition
    _threading.Semaphore = _threading.BoundedSemaphore = SimSemaphore
    try:
        for name in extra + _ORDER:
            m = sys.modules.get(name)
            if m is None:
                continue
            co = _code.get(name)
            if co is None:
                with open(m.__file__, "rb") as f:
                    src = f.read()
                co = compile(_knobify(src, m.__file__, name), m.__file__, "exec",
                             dont_inherit=True)
                _code[name] = co
            if name in _not_reloadable:
                mods.append(m)
                continue
            m.__dict__["__wavesim_knob__"] = _knob
            saved = dict(m.__dict__)
            try:
                exec(co, m.__dict__)
            except Exception:  # noqa
                # a module whose body cannot run twice in one process (e.g. it
                # registers a torch.library op): keep the state it has; its
                # globals are then not reset between runs (probe, not an error)
                m.__dict__.clear()
                m.__dict__.update(saved)
                _not_reloadable.add(name)
            mods.append(m)
    finally:
        _threading.Lock, _threading.RLock = _RealLock, _RealRLock
        (_threading.Event, _threading.Condition, _threading.Semaphore,
         _threading.BoundedSemaphore) = _saved
    _time_proxy.reset()
    _patch_library_locks(mods)
    L.orig_resource_stream = L.coeffs.__dict__.get("resource_stream")
    if patch_stream and L.orig_resource_stream is not None:
        L.coeffs.resource_stream = make_resource_stream(L.orig_resource_stream)
    if patch_stream:
        install_file_seam()
        install_numpy_load_seam()
        ld = L.coeffs.__dict__.get("load")
        if ld is _real_np_load:
            L.coeffs.load = _sys_np_load()
    return L
