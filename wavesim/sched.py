"""Baton-passing scheduler over real threads.

Exactly one client thread runs at any time.  Every *decision point* (a traced
source line of the library, a call on the simulated stream, an operation
boundary, a client blocking or finishing) hands control to `Scheduler.decide`,
which asks a *chooser* who runs next.  Choosers:

  RandomWalk  - seeded; switch with probability p at optional points
  PCT         - seeded; random priorities + d priority-change points
  Explicit    - replays a recorded list of {"at": key, "to": client}

Whatever the chooser, the scheduler records every decision that differs from
the default ("keep running the current client; if it cannot run, take the
lowest-numbered runnable one") as an explicit switch point.  An Explicit
chooser fed with that record reproduces the run exactly; the record is what
the minimiser shrinks.

A decision-point key is [client, op_id, k]: the k-th decision point of that
client inside its operation op_id (k = 0 is the operation's start boundary,
k = -1 a block at the start boundary, op_id = "end" the client's exit).
"""
import threading


class Deadlock(Exception):
    pass


class SchedAbort(SystemExit):
    """Raised in a parked client thread when the run is abandoned (distinct from
    a SystemExit the library itself may raise, e.g. argparse in a CLI helper)."""


class RandomWalk:
    name = "random_walk"

    def __init__(self, rng, p):
        self.rng = rng
        self.p = p

    def choose(self, sched, cur, runnable, forced, key):
        if forced:
            return runnable[self.rng.randrange(len(runnable))]
        if len(runnable) > 1 and (sched.yielding or self.rng.random() < self.p):
            others = [c for c in runnable if c != cur]
            return others[self.rng.randrange(len(others))]
        return cur


class BoundaryOnly:
    """Switch only at operation boundaries (op-level interleavings)."""
    name = "boundary"

    def __init__(self, rng, p):
        self.rng = rng
        self.p = p

    def choose(self, sched, cur, runnable, forced, key):
        if forced:
            return runnable[self.rng.randrange(len(runnable))]
        if len(runnable) > 1 and (sched.yielding or (key[2] == 0 and self.rng.random() < self.p)):
            others = [c for c in runnable if c != cur]
            return others[self.rng.randrange(len(others))]
        return cur


class PCT:
    """Probabilistic concurrency testing (Burckhardt et al. 2010), adapted:
    random distinct priorities; at d random step indices the running client's
    priority drops below all others."""
    name = "pct"

    def __init__(self, rng, n, depth, horizon):
        self.rng = rng
        prios = list(range(depth + 1, depth + 1 + n))
        rng.shuffle(prios)
        self.prio = prios
        self.change = {}
        for i in range(depth):
            self.change[rng.randrange(1, max(2, horizon))] = depth - i

    def choose(self, sched, cur, runnable, forced, key):
        low = self.change.pop(sched.step, None)
        if low is not None and cur is not None:
            self.prio[cur] = low
        if sched.yielding and cur is not None:
            # a yield (timed wait, sleep) is a priority-change point: the
            # spinning client drops below everybody else
            self.floor = getattr(self, "floor", 0) - 1
            self.prio[cur] = self.floor
        best = runnable[0]
        for c in runnable[1:]:
            if self.prio[c] > self.prio[best]:
                best = c
        return best


class Explicit:
    name = "explicit"

    def __init__(self, switches):
        self.map = {}
        for s in switches:
            self.map[tuple(s["at"])] = s["to"]

    def choose(self, sched, cur, runnable, forced, key):
        to = self.map.get(tuple(key))
        if to is not None and to in runnable:
            return to
        if cur in runnable:
            return cur
        return runnable[0]


class Scheduler:
    def __init__(self, n, chooser, log):
        self.n = n
        self.chooser = chooser
        self.log = log              # callable(event tuple)
        self.sems = [threading.Semaphore(0) for _ in range(n)]
        self.main_sem = threading.Semaphore(0)
        self.state = ["ready"] * n  # ready | blocked | done
        self.pred = [None] * n      # unblock predicate for blocked clients
        self.current = None
        self.step = 0
        self.switches = []          # recorded non-default decisions
        self.n_switch = 0           # context switches taken
        self.n_switch_in_lib = 0    # ... at a line/io point (inside the library)
        self.failed = None          # harness failure to re-raise in main
        self.abort = False
        self.yielding = False       # the current decision is a voluntary yield

    # -- runnable set -------------------------------------------------------
    def runnable(self):
        out = []
        for c in range(self.n):
            st = self.state[c]
            if st == "ready":
                out.append(c)
            elif st == "blocked" and self.pred[c]():
                out.append(c)
        return out

    # -- the one decision routine ------------------------------------------
    def decide(self, cur, key, forced=False, in_lib=False, yielding=False):
        """Called by the thread holding the baton (cur) or by main (cur=None).
        Returns after `cur` holds the baton again (or immediately for main /
        a finished client)."""
        self.step += 1
        run = self.runnable()
        if not run:
            if all(s == "done" for s in self.state):
                self.main_sem.release()
                return
            self.failed = Deadlock("no runnable client; states=%r key=%r"
                                   % (self.state, key))
            self.abort = True
            self.main_sem.release()
            return
        cur_ok = (cur is not None and cur in run and not forced)
        default = cur if cur_ok else run[0]
        self.yielding = yielding
        try:
            to = self.chooser.choose(self, cur if cur_ok else None, run,
                                     not cur_ok, key)
        finally:
            self.yielding = False
        if to not in run:
            to = default
        if to != default:
            self.switches.append({"at": list(key), "to": to})
        if to == cur:
            return
        self.n_switch += 1
        if in_lib:
            self.n_switch_in_lib += 1
        self.log(("sw", self.step, list(key), to))
        if self.state[to] == "blocked":
            self.state[to] = "ready"
            self.pred[to] = None
        self.current = to
        self.sems[to].release()
        if cur is not None and self.state[cur] != "done":
            self.sems[cur].acquire()
            if self.abort:
                raise SchedAbort

    def block(self, cur, key, pred):
        """Park `cur` until pred() holds (evaluated at later decisions)."""
        self.state[cur] = "blocked"
        self.pred[cur] = pred
        self.decide(cur, key, forced=True)

    def finish(self, cur):
        self.state[cur] = "done"
        self.decide(cur, [cur, "end", 0], forced=True)

    # -- main thread --------------------------------------------------------
    def run(self, threads, timeout):
        for t in threads:
            t.start()
        self.decide(None, [-1, "start", 0], forced=True)
        ok = self.main_sem.acquire(timeout=timeout)
        if not ok:
            self.abort = True
            raise Deadlock("scheduler wall-clock watchdog (%ss) expired at step %d"
                           % (timeout, self.step))
        if self.failed:
            self.abort = True
            for s in self.sems:
                s.release()
            raise self.failed
        for t in threads:
            t.join(timeout)
