"""Determinism and sanity self-test (exit 0 ok, 2 harness error).

 --quick : import guard, pinned tables vs reference package, N seeds per
           profile executed (a) twice in this process, (b) in a fresh
           interpreter under another PYTHONHASHSEED, (c) replayed from the
           recorded explicit schedule; all fingerprints must agree.  Also the
           bit-reproducibility panel behind the bitwise oracle.
 --full  : the same on many more seeds, at two worker counts and in shuffled
           order.
"""
import json
import os
import subprocess
import sys
import time

from . import env


def fingerprints(argv):
    """child mode: print {seed: fingerprint} for PROFILE and the seeds given"""
    from . import gen, world
    prof, _, tier = argv[0].partition(":")
    out = {}
    for s in argv[1:]:
        res = world.run_plan(gen.gen_plan(prof, int(s), tier or "quick"))
        out[s] = res["fingerprint"]
    print("FPS " + json.dumps(out, sort_keys=True))
    return 0


def child_fps(prof, seeds, hashseed):
    cmd = [sys.executable, "-m", "wavesim.run", "selftest", "--fps", prof] + [str(s) for s in seeds]
    p = subprocess.run(cmd, cwd=env.VERIF, env=env.pinned_env(
        {"PYTHONHASHSEED": hashseed, "WAVESIM_REEXEC": "1"}), stdout=subprocess.PIPE,
        stderr=subprocess.STDOUT, timeout=1800)
    for ln in p.stdout.decode("utf8", "replace").splitlines():
        if ln.startswith("FPS "):
            return json.loads(ln[4:])
    raise env.HarnessError("fingerprint child failed: " + p.stdout.decode("utf8", "replace")[-800:])


def panel(n_cases=60):
    """Bit-reproducibility of the library in two pristine executions with
    different allocation histories and threads (justifies the bitwise oracle)."""
    import random
    import threading
    from . import catalog, seams
    from .tensors import make_tensor, snap, snap_digest
    rng = random.Random(20261001)
    cases = []
    for i in range(n_cases):
        fam = catalog.FWD_FAMILIES[i % 5]
        p = catalog.gen_params(fam, rng)
        spec = catalog.gen_input_spec(fam, p, rng)
        cases.append((fam, p, spec))

    def run_all(out, junk):
        L = seams.fresh_library()
        torch = L.torch
        for fam, p, spec in cases:
            keep = [torch.randn(junk) for _ in range(3)] if junk else None
            try:
                m = catalog.build(fam, p)
                if spec["dtype"] == "float64":
                    m = m.double()
                b, x = make_tensor(spec)
                x.requires_grad_(True)
                y = m(x)
                ts = [t for t in __import__("wavesim.tensors", fromlist=["x"]).flat_tensors(y)
                      if t.requires_grad and t.dim() > 0]
                g = torch.autograd.grad([t.sum() for t in ts], [x], allow_unused=True) if ts else None
                out.append(snap_digest(snap([y, list(g) if g else None])))
            except Exception as e:  # noqa
                out.append("raise:" + type(e).__name__)
            del keep
    a, b = [], []
    run_all(a, 0)
    t = threading.Thread(target=run_all, args=(b, 1237))
    t.start()
    t.join()
    bad = [i for i, (x, y) in enumerate(zip(a, b)) if x != y]
    return len(cases), bad


def main(argv):
    from . import gen, world, tables
    full = "--full" in argv
    if argv and argv[0] == "--fps":
        return fingerprints(argv[1:])
    t0 = time.time()
    L = env.lib()
    print("library under test: %s" % os.path.dirname(L.pw.__file__))
    tables.reference_tables()
    print("pinned tables agree with the installed reference package")
    n, bad = panel(150 if full else 40)
    if bad:
        print("%s: bit-reproducibility panel: %d of %d cases differ between two pristine "
              "executions: %s" % ("HARNESS-ERROR" if full else "WARNING", len(bad), n, bad[:10]))
        if full:
            return 2
    if not bad:
        print("bit-reproducibility panel: %d cases identical across thread/allocation history" % n)
    nseeds = 200 if full else 8
    problems = []
    for prof in ("C15", "C16", "C18"):
        seeds = list(range(9000, 9000 + nseeds))
        first = {}
        sched = {}
        for s in seeds:
            plan = gen.gen_plan(prof, s)
            r1 = world.run_plan(plan)
            first[str(s)] = r1["fingerprint"]
            sched[s] = (plan, r1)
        # (a) again, same process, reversed order
        for s in reversed(seeds):
            r2 = world.run_plan(gen.gen_plan(prof, s))
            if r2["fingerprint"] != first[str(s)]:
                problems.append("%s seed %d: second run in the same process differs" % (prof, s))
        # (b) fresh interpreter, other hash seed
        # --quick (setup_cmd, may run on a changed tree): same hash seed as the
        # workers; --full (pinned tree): two other hash seeds
        for hs in (("0",) if not full else ("12345", "777")):
            other = child_fps(prof, seeds if not full else seeds[::-1], hs)
            for s in seeds:
                if other.get(str(s)) != first[str(s)]:
                    problems.append("%s seed %d: fresh interpreter (PYTHONHASHSEED=%s) differs" % (prof, s, hs))
        # (c) explicit replay of the recorded schedule
        for s in seeds:
            plan, r1 = sched[s]
            p2 = dict(plan)
            p2["schedule"] = r1["schedule"]
            r3 = world.run_plan(p2)
            if r3["fingerprint"] != r1["fingerprint"]:
                problems.append("%s seed %d: explicit-schedule replay differs" % (prof, s))
        print("%s: %d seeds x (2 in-process + %d fresh interpreter + explicit replay) fingerprints agree"
              % (prof, nseeds, 1 if not full else 2) if not problems else "%s: PROBLEMS" % prof)
    if problems:
        for p in problems[:20]:
            print("HARNESS-ERROR: " + p)
        return 2
    print("selftest ok in %.1fs" % (time.time() - t0))
    return 0
