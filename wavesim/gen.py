"""seed -> plan.  Pure function of (profile, seed); swarm-style: every run
draws its own client count, policy, op mix, size pool and fault budget."""
import math
import random

from . import catalog, tables
from .world import FUNCS

# rough upper bounds of traced library lines per operation kind, used only to
# place line faults (a fault placed beyond the end simply does not fire and is
# counted as such)
LMAX = {"call": 900, "inverse": 700, "backward": 700, "construct": 120, "load": 25,
        "func": 150, "restart": 120}

IO_FAMILIES = ("dtf", "dti", "scat", "scat2")


def _pick(rng, seq):
    return seq[rng.randrange(len(seq))]


def _wchoice(rng, pairs):
    tot = sum(w for _, w in pairs)
    r = rng.random() * tot
    for v, w in pairs:
        r -= w
        if r <= 0:
            return v
    return pairs[-1][0]


def _logu(rng, lo, hi):
    return int(math.exp(rng.uniform(math.log(lo), math.log(hi + 1))))


BASE_MIX = {
    "C15": {"call": 6, "inverse": 3, "backward": 3.5, "construct": 2, "convert": 0.5,
            "restart": 0.6, "drop": 0.3, "forget": 0.3, "mutate_output": 0.8, "load": 0.8,
            "set_default_dtype": 0.4, "func": 1.2},
    "C16": {"call": 6, "inverse": 3, "backward": 1.0, "construct": 2, "convert": 4,
            "restart": 1.5, "drop": 0.2, "forget": 0.1, "mutate_output": 0.2, "load": 0.0,
            "set_default_dtype": 2.0, "func": 0.0},
    "C18": {"call": 0.6, "inverse": 0.0, "backward": 0.0, "construct": 3, "convert": 0.0,
            "restart": 0.3, "drop": 0.3, "forget": 0.0, "mutate_output": 0.0, "load": 9,
            "set_default_dtype": 0.2, "func": 0.0},
}


def gen_plan(profile, seed):
    rng = random.Random("%s:%d" % (profile, seed))
    n_clients = _wchoice(rng, [(1, 0.2), (2, 0.4), (3, 0.25), (4, 0.15)])
    pol = _wchoice(rng, [("random_walk", 0.5), ("pct", 0.3), ("boundary", 0.2)])
    knobs = {"n_clients": n_clients, "policy": pol,
             "switch_prob": _pick(rng, [0.02, 0.1, 0.5, 1.0]),
             "pct_depth": rng.randrange(1, 4),
             "small": rng.random() < 0.4,
             "simple_waves": rng.random() < 0.3}
    # module slots: groups of a forward family and (where one exists) its inverse
    fams = list(catalog.FWD_FAMILIES)
    if profile == "C18":
        fam_w = [("dtf", 4), ("scat", 2), ("scat2", 2), ("dwt2f", 0.5)]
    elif profile == "C16":
        fam_w = [("dwt1f", 2), ("dwt2f", 3), ("dtf", 3), ("scat", 1), ("scat2", 1)]
    else:
        fam_w = [("dwt1f", 2), ("dwt2f", 3), ("dtf", 3), ("scat", 1), ("scat2", 1), ("swt", 0.3)]
    slots = []
    n_groups = rng.randrange(1, 4)
    for _ in range(n_groups):
        f = _wchoice(rng, fam_w)
        slots.append(f)
        if f in catalog.INV_OF and rng.random() < 0.75:
            slots.append(catalog.INV_OF[f])
    # op mix (swarm): each optional kind enabled with probability 0.75
    mix = {}
    for k, wgt in BASE_MIX[profile].items():
        if wgt <= 0:
            continue
        if k in ("call", "construct") or (profile == "C18" and k == "load") or rng.random() < 0.75:
            mix[k] = wgt * _pick(rng, [0.5, 1.0, 1.0, 2.0])
    knobs["op_mix"] = {k: round(v, 3) for k, v in sorted(mix.items())}
    gid = [0]

    def new_id():
        gid[0] += 1
        return gid[0]

    # current (statically assumed) params per slot, to pair inverse with forward
    cur_params = {}
    slot_dtype = {}
    cur_default = ["float32"]

    def construct_op(slot):
        fam = slots[slot]
        if fam in catalog.FWD_OF:
            fslots = [i for i, f in enumerate(slots) if f == catalog.FWD_OF[fam] and i in cur_params]
            if fslots and rng.random() < 0.85:
                p = catalog.inverse_params(catalog.FWD_OF[fam], cur_params[_pick(rng, fslots)], rng)
            else:
                p = catalog.gen_params(fam, rng, knobs["simple_waves"])
        else:
            p = catalog.gen_params(fam, rng, knobs["simple_waves"])
        cur_params[slot] = p
        slot_dtype[slot] = cur_default[0]
        return {"op": "construct", "id": new_id(), "slot": slot, "params": p}

    programs = [[] for _ in range(n_clients)]
    prologue = rng.random() < 0.7
    if prologue:
        for s in range(len(slots)):
            programs[0].append(construct_op(s))
        programs[0].append({"op": "signal", "id": new_id()})
        for c in range(1, n_clients):
            programs[c].append({"op": "wait", "id": new_id()})
    n_ops_total = rng.randrange(3, 9) * n_clients if profile != "C18" else rng.randrange(3, 11) * n_clients
    regs = [[] for _ in range(n_clients)]     # (reg, family, kind, requires_grad)
    nreg = [0]
    kinds = sorted(mix)
    weights = [mix[k] for k in kinds]
    dtypes_seen = ["float32", "float64"]
    for c in range(n_clients):
        n_ops = max(2, n_ops_total // n_clients + rng.randrange(-1, 2))
        prog = programs[c]
        for _ in range(n_ops):
            k = rng.choices(kinds, weights)[0]
            fwd_slots = [i for i, f in enumerate(slots) if f in catalog.INPUT_RANK]
            inv_slots = [i for i, f in enumerate(slots) if f in catalog.FWD_OF]
            if k == "construct" or (not prologue and not any(o["op"] == "construct" for o in prog)):
                prog.append(construct_op(rng.randrange(len(slots))))
            elif k == "call":
                s = _pick(rng, fwd_slots)
                fam = slots[s]
                spec = catalog.gen_input_spec(fam, cur_params.get(s, {}), rng, small=knobs["small"])
                # mostly feed the module the precision it is (statically) in
                sd = slot_dtype.get(s, "float32")
                spec["dtype"] = sd if rng.random() < 0.9 else \
                    ("float64" if sd == "float32" else "float32")
                nreg[0] += 1
                r = "r%d" % nreg[0]
                rg = rng.random() < 0.6
                gm = _wchoice(rng, [("ambient", 0.6), ("no_grad", 0.15), ("inference", 0.1),
                                    ("enable_grad", 0.15)])
                prog.append({"op": "call", "id": new_id(), "slot": s, "arg": spec,
                             "requires_grad": rg, "grad_mode": gm, "out": r,
                             "i6": rng.random() < 0.3})
                regs[c].append((r, fam, "fwd", rg and gm in ("ambient", "enable_grad")))
            elif k == "inverse":
                cands = [(r, f) for (r, f, kd, _) in regs[c] if kd == "fwd" and f in catalog.INV_OF
                         and catalog.INV_OF[f] in slots]
                if not cands:
                    continue
                r, f = _pick(rng, cands)
                s = _pick(rng, [i for i in inv_slots if slots[i] == catalog.INV_OF[f]])
                nreg[0] += 1
                out = "r%d" % nreg[0]
                mask = None
                if rng.random() < 0.45:
                    opts = ["keep", "none"] + (["zerodim"] if f == "dtf" else [])
                    mask = [_wchoice(rng, [(o, 2 if o == "keep" else 1) for o in opts])
                            for _ in range(3)]
                rg_low = rng.random() < 0.5
                rg_high = rng.random() < 0.5
                gm = _wchoice(rng, [("ambient", 0.7), ("no_grad", 0.15), ("inference", 0.05),
                                    ("enable_grad", 0.1)])
                prog.append({"op": "inverse", "id": new_id(), "slot": s, "src": r, "out": out,
                             "mask": mask, "perturb": _pick(rng, [0.0, 0.0, 0.5]),
                             "rg_low": rg_low, "rg_high": rg_high, "grad_mode": gm,
                             "seed": rng.randrange(1 << 30), "i6": rng.random() < 0.3})
                regs[c].append((out, catalog.INV_OF[f], "inv",
                                (rg_low or rg_high) and gm in ("ambient", "enable_grad")))
            elif k == "backward":
                cands = [r for (r, f, kd, rg) in regs[c] if rg]
                if not cands:
                    continue
                prog.append({"op": "backward", "id": new_id(), "handle": _pick(rng, cands),
                             "seed": rng.randrange(1 << 30), "retain": rng.random() < 0.4,
                             "out_mask": rng.randrange(0, 256) if rng.random() < 0.4 else 0,
                             "leaf_mask": rng.randrange(0, 256) if rng.random() < 0.4 else 0})
            elif k == "convert":
                cs = rng.randrange(len(slots))
                how = _pick(rng, ["double", "float", "to64", "to32"])
                slot_dtype[cs] = "float64" if how in ("double", "to64") else "float32"
                prog.append({"op": "convert", "id": new_id(), "slot": cs, "how": how})
            elif k == "restart":
                prog.append({"op": "restart", "id": new_id(), "slot": rng.randrange(len(slots)),
                             "how": _pick(rng, ["deepcopy", "pickle", "state_dict"])})
            elif k == "drop":
                prog.append({"op": "drop", "id": new_id(), "slot": rng.randrange(len(slots))})
            elif k == "forget":
                if regs[c]:
                    r = regs[c].pop(rng.randrange(len(regs[c])))
                    prog.append({"op": "forget", "id": new_id(), "reg": r[0]})
            elif k == "mutate_output":
                if regs[c]:
                    i = rng.randrange(len(regs[c]))
                    r = regs[c][i]
                    regs[c][i] = (r[0], r[1], r[2], False)
                    prog.append({"op": "mutate_output", "id": new_id(), "reg": r[0],
                                 "index": rng.randrange(1 << 16)})
            elif k == "load":
                r = rng.random()
                if r < 0.85:      # a combination the reference defines
                    nm = _pick(rng, tables.ALL_NAMES)
                    ok = [ld for ld in tables.LOADERS if tables.expected(ld, nm)[0] == "ok"]
                    ld = _pick(rng, ok)
                elif r < 0.95:    # any combination (most raise ValueError)
                    nm, ld = _pick(rng, tables.ALL_NAMES), _pick(rng, tables.LOADERS)
                else:
                    nm, ld = _pick(rng, tables.INVALID), _pick(rng, tables.LOADERS)
                prog.append({"op": "load", "id": new_id(), "loader": ld, "name": nm})
            elif k == "set_default_dtype":
                cur_default[0] = _pick(rng, ["float32", "float64"])
                prog.append({"op": "set_default_dtype", "id": new_id(), "dtype": cur_default[0]})
            elif k == "func":
                prog.append(gen_func(rng, new_id(), knobs))
    # faults (about half of all runs are fault-free)
    faults = []
    budget = 0 if rng.random() < 0.5 else rng.randrange(1, 4)
    targets = [(c, o) for c in range(n_clients) for o in programs[c] if o["op"] in LMAX]
    for _ in range(budget):
        if not targets:
            break
        c, o = _pick(rng, targets)
        faults.append(gen_fault(rng, profile, c, o, slots))
    knobs["fault_budget"] = budget
    knobs["horizon"] = 150 * sum(len(p) for p in programs)
    return {"version": 1, "profile": profile, "property": profile, "seed": seed, "knobs": knobs,
            "slots": slots, "programs": programs, "faults": faults}


def gen_func(rng, oid, knobs):
    fn = _pick(rng, FUNCS)
    pool = catalog.SIZES_2D[2:9]
    N, C = _pick(rng, [1, 2]), _pick(rng, [1, 2, 3])
    H, W = _pick(rng, pool), _pick(rng, pool)
    dtype = "float32" if rng.random() < 0.8 else "float64"

    def spec(shape):
        return {"shape": shape, "dtype": dtype, "layout": "contig" if rng.random() < 0.7
                else _pick(rng, ["transposed", "step", "offset"]),
                "seed": rng.randrange(1 << 30), "scale": 1.0}
    mode = _pick(rng, ["zero", "symmetric", "periodization", "reflect", "periodic"])
    op = {"op": "func", "id": oid, "fn": fn, "wave": _pick(rng, catalog.WAVES_SIMPLE + ["db4"]),
          "mode": mode, "prep": rng.random() < 0.5,
          "grad_mode": _pick(rng, ["ambient", "ambient", "no_grad"]),
          "requires_grad": rng.random() < 0.3}
    if fn in ("afb2d", "afb2d_nonsep", "afb1d"):
        op["args"] = [spec([N, C, H, W])]
    elif fn == "afb2d_atrous":
        op["args"] = [spec([N, C, H, W])]
        op["mode"] = _pick(rng, ["periodic", "symmetric", "zero"])
        op["dilation"] = _pick(rng, [1, 2])
    elif fn == "sfb2d":
        op["args"] = [spec([N, C, H, W]) for _ in range(4)]
    elif fn == "sfb2d_nonsep":
        op["args"] = [spec([N, C, 4, H, W])]
    elif fn == "sfb1d":
        op["args"] = [spec([N, C, H, W]) for _ in range(2)]
    if fn in ("afb1d", "sfb1d"):
        op["dim"] = _pick(rng, [-1, 2, 3])
        op["prep"] = False
    return op


def gen_fault(rng, profile, c, o, slots):
    kind_pool = [("op_error", 3), ("async_exc", 2)]
    io_capable = o["op"] == "load" or (o["op"] in ("construct", "restart")
                                       and slots[o["slot"]] in IO_FAMILIES)
    if io_capable:
        w = 6 if profile == "C18" else 2
        kind_pool += [("io_open", w), ("io_read", w), ("io_eof", w), ("io_flip", w)]
    kind = _wchoice(rng, kind_pool)
    f = {"client": c, "op_id": o["id"], "kind": kind}
    if kind == "op_error":
        f["exc"] = _pick(rng, ["RuntimeError", "RuntimeError", "MemoryError"])
        f["at"] = _logu(rng, 1, LMAX[o["op"]])
    elif kind == "async_exc":
        f["exc"] = _pick(rng, ["KeyboardInterrupt", "SimCancel"])
        f["at"] = _logu(rng, 1, LMAX[o["op"]])
    elif kind == "io_open":
        f["exc"] = _pick(rng, ["FileNotFoundError", "PermissionError", "EMFILE"])
        f["at"] = 1 if rng.random() < 0.8 else 2
    elif kind == "io_read":
        f["at"] = _logu(rng, 1, 60)
    else:
        f["at"] = 1 if rng.random() < 0.8 else 2
        f["arg"] = rng.randrange(1 << 20)
    return f
