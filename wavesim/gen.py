"""seed -> plan.  Pure function of (profile, seed); swarm-style: every run
draws its own client count, policy, op mix, size pool and fault budget."""
import math
import random

from . import catalog, tables
from .world import FUNCS

# rough upper bounds of traced library lines per operation kind, used only to
# place line faults (a fault placed beyond the end simply does not fire and is
# counted as such)
LMAX = {"newapi": 60, "extra": 60, "roundtrip": 1500, "call": 900, "inverse": 700, "backward": 700, "construct": 120, "load": 25,
        "func": 150, "restart": 120}

IO_FAMILIES = ("dtf", "dti", "scat", "scat2", "dt2f")


def _pick(rng, seq):
    return seq[rng.randrange(len(seq))]


def _wchoice(rng, pairs):
    tot = sum(w for _, w in pairs)
    r = rng.random() * tot
    for v, w in pairs:
        r -= w
        if r <= 0:
            return v
    return pairs[-1][0]


def _logu(rng, lo, hi):
    return int(math.exp(rng.uniform(math.log(lo), math.log(hi + 1))))


BASE_MIX = {
    "C15": {"call": 5, "inverse": 4, "backward": 4, "construct": 2, "convert": 0.5,
            "restart": 0.9, "drop": 0.3, "forget": 0.3, "mutate_output": 0.8, "load": 0.8,
            "set_default_dtype": 0.4, "func": 1.2, "roundtrip": 1.5, "newapi": 0.5},
    "C16": {"call": 6, "inverse": 3, "backward": 2.5, "construct": 2, "convert": 4,
            "restart": 1.5, "drop": 0.2, "forget": 0.1, "mutate_output": 0.2, "load": 0.0,
            "set_default_dtype": 2.0, "func": 0.0, "roundtrip": 1.0, "newapi": 0.5},
    "C18": {"call": 0.6, "inverse": 0.0, "backward": 0.0, "construct": 3, "convert": 0.0,
            "restart": 0.3, "drop": 0.3, "forget": 0.0, "mutate_output": 0.0, "load": 9,
            "set_default_dtype": 0.2, "func": 0.6, "roundtrip": 0.0, "extra": 0.8, "newapi": 0.5},
}


def catalog_target(how):
    from .world import CONVERT_TARGET
    return CONVERT_TARGET[how]


def gen_plan(profile, seed, tier="quick"):
    """tier 'thorough': every second seed is a *deep* run (more clients, longer
    programs, larger sizes, deeper PCT); the others are generated exactly as in
    the quick tier."""
    deep = tier == "thorough" and seed % 2 == 1
    rng = random.Random("%s:%d%s" % (profile, seed, ":deep" if deep else ""))
    n_clients = _wchoice(rng, [(1, 0.2), (2, 0.4), (3, 0.25), (4, 0.15)]) if not deep else \
        _wchoice(rng, [(2, 0.3), (3, 0.3), (4, 0.25), (5, 0.15)])
    pol = _wchoice(rng, [("random_walk", 0.5), ("pct", 0.3), ("boundary", 0.2)])
    knobs = {"n_clients": n_clients, "policy": pol,
             "switch_prob": _pick(rng, [0.02, 0.1, 0.5, 1.0]),
             "pct_depth": rng.randrange(1, 4) if not deep else rng.randrange(2, 6),
             "deep": deep,
             "small": rng.random() < (0.4 if not deep else 0.15),
             # new numeric constants of the library (thresholds, sizes) are divided by
             # 2**const_shift in a third of the runs
             "const_shift": _pick(rng, [0, 0, 0, 0, 8, 12, 16]),
             # pre-emption also at the return of every C call made by a library frame
             "fine": rng.random() < 0.25,
             "simple_waves": rng.random() < 0.3}
    # module slots: groups of a forward family and (where one exists) its inverse
    fams = list(catalog.FWD_FAMILIES)
    if profile == "C18":
        fam_w = [("dtf", 4), ("scat", 2), ("scat2", 2), ("dwt2f", 0.5), ("dt2f", 1)]
    elif profile == "C16":
        fam_w = [("dwt1f", 2), ("dwt2f", 3), ("dtf", 3), ("scat", 1), ("scat2", 1)]
    else:
        fam_w = [("dwt1f", 2), ("dwt2f", 3), ("dtf", 3), ("scat", 1), ("scat2", 1), ("swt", 0.3),
                 ("dt2f", 0.4)]
    slots = []
    n_groups = rng.randrange(1, 4) if not deep else rng.randrange(2, 5)
    for _ in range(n_groups):
        f = _wchoice(rng, fam_w)
        slots.append(f)
        if f in catalog.INV_OF and rng.random() < 0.75:
            slots.append(catalog.INV_OF[f])
    if profile in ("C15", "C16") and rng.random() < 0.35:
        slots.append(_pick(rng, slots))      # a twin slot (clones, class-level state)
    # "constructor storm" style (a quarter of the C15 runs): several slots of
    # ONE family group, constructed concurrently with different parameters by
    # all clients, then used; aimed at lazily initialised per-class / per-family
    # shared state whose race window is a line or two wide
    storm = profile == "C15" and rng.random() < 0.25
    if storm:
        f = _wchoice(rng, [("dwt2f", 3), ("dwt1f", 2), ("dtf", 3), ("scat", 1), ("scat2", 1)])
        slots = [f] * rng.randrange(2, 4)
        if f in catalog.INV_OF:
            slots += [catalog.INV_OF[f]] * rng.randrange(1, 3)
        if n_clients == 1:
            n_clients = 2
            knobs["n_clients"] = 2
        if knobs["policy"] == "boundary":
            knobs["policy"] = "pct"
        knobs["pct_depth"] = rng.randrange(1, 3)
    knobs["storm"] = storm
    # "marathon" style (rare): one or two clients, hundreds of calls with many
    # distinct shapes on a few modules - bounded caches, eviction paths and
    # call counters only show after that many calls
    marathon = (not storm) and profile in ("C15", "C16") and rng.random() < 0.006
    knobs["marathon"] = marathon
    if marathon:
        n_clients = 1 if rng.random() < 0.6 else 2
        knobs["n_clients"] = n_clients
        knobs["policy"] = "boundary"
    # op mix (swarm): each optional kind enabled with probability 0.75
    mix = {}
    for k, wgt in BASE_MIX[profile].items():
        if wgt <= 0:
            continue
        if k in ("call", "construct") or (profile == "C18" and k == "load") or rng.random() < 0.75:
            mix[k] = wgt * _pick(rng, [0.5, 1.0, 1.0, 2.0])
    knobs["op_mix"] = {k: round(v, 3) for k, v in sorted(mix.items())}
    gid = [0]

    def new_id():
        gid[0] += 1
        return gid[0]

    # current (statically assumed) params per slot, to pair inverse with forward
    cur_params = {}
    slot_dtype = {}
    cur_default = ["float32"]

    def construct_op(slot):
        fam = slots[slot]
        if fam in catalog.FWD_OF:
            fslots = [i for i, f in enumerate(slots) if f == catalog.FWD_OF[fam] and i in cur_params]
            if fslots and rng.random() < 0.85:
                p = catalog.inverse_params(catalog.FWD_OF[fam], cur_params[_pick(rng, fslots)], rng)
            else:
                p = catalog.gen_params(fam, rng, knobs["simple_waves"])
        else:
            p = catalog.gen_params(fam, rng, knobs["simple_waves"])
        # options a change under test may add to the constructor (no effect on
        # the pinned tree, whose constructors have no unknown parameters)
        p["fuzz"] = rng.randrange(1, 16) if rng.random() < 0.5 else 0
        cur_params[slot] = p
        slot_dtype[slot] = cur_default[0]
        return {"op": "construct", "id": new_id(), "slot": slot, "params": p}

    programs = [[] for _ in range(n_clients)]
    r = rng.random()
    if storm:
        r = 0.5          # concurrent prologue
    prologue = r < 0.7
    if r < 0.45:
        # serial prologue: client 0 constructs every slot, then releases the others
        for s in range(len(slots)):
            programs[0].append(construct_op(s))
        programs[0].append({"op": "signal", "id": new_id()})
        for c in range(1, n_clients):
            programs[c].append({"op": "wait", "id": new_id()})
    elif r < 0.7:
        # concurrent prologue: the constructors of all slots race with each
        # other (cold caches, lazily initialised shared state)
        order = list(range(len(slots)))
        rng.shuffle(order)
        for i, s in enumerate(order):
            programs[i % n_clients].append(construct_op(s))
        if n_clients > 1 and rng.random() < 0.5:
            extra = rng.randrange(len(slots))
            programs[rng.randrange(n_clients)].append(construct_op(extra))
        for c in range(n_clients):
            programs[c].append({"op": "barrier", "id": new_id()})
    knobs["prologue"] = "serial" if r < 0.45 else ("concurrent" if r < 0.7 else "none")
    n_ops_total = rng.randrange(3, 9) * n_clients if profile != "C18" else rng.randrange(3, 11) * n_clients
    if deep:
        n_ops_total = rng.randrange(8, 18) * n_clients
    if marathon:
        n_ops_total = rng.randrange(150, 320)
        mix = {k: v for k, v in mix.items() if k in ("call", "inverse", "backward", "roundtrip")}
        mix["call"] = mix.get("call", 5) * 3
    regs = [[] for _ in range(n_clients)]     # (reg, family, kind, requires_grad)
    nreg = [0]
    kinds = sorted(mix)
    weights = [mix[k] for k in kinds]
    knobs["op_mix"] = {k: round(v, 3) for k, v in sorted(mix.items())}
    dtypes_seen = ["float32", "float64"]
    have = set(range(len(slots))) if prologue else set()

    def need(c, prog, s):
        """without a prologue, usually construct a slot before first using it"""
        if s not in have and rng.random() < 0.85:
            prog.append(construct_op(s))
            have.add(s)

    def emit_call(c, prog, s, force_rg=False):
        need(c, prog, s)
        fam = slots[s]
        spec = catalog.gen_input_spec(fam, cur_params.get(s, {}), rng, small=knobs["small"])
        if knobs.get("marathon"):
            # many distinct shapes rather than the pooled ones
            lo = 8 if fam in ("scat", "scat2") else 2
            spec["shape"][-1] = rng.randrange(lo, 41)
            if len(spec["shape"]) == 4:
                spec["shape"][-2] = rng.randrange(lo, 41)
        # mostly feed the module the precision it is (statically) in
        sd = slot_dtype.get(s, "float32")
        spec["dtype"] = sd if rng.random() < 0.9 else \
            ("float64" if sd == "float32" else "float32")
        nreg[0] += 1
        r = "r%d" % nreg[0]
        rg = force_rg or rng.random() < 0.6
        gm = _wchoice(rng, [("ambient", 0.6), ("no_grad", 0.15), ("inference", 0.1),
                            ("enable_grad", 0.15)])
        if force_rg:
            gm = "ambient"
        prog.append({"op": "call", "id": new_id(), "slot": s, "arg": spec,
                     "requires_grad": rg, "grad_mode": gm, "out": r,
                     "i6": rng.random() < 0.3, "nonleaf": rg and rng.random() < 0.1})
        regs[c].append((r, fam, "fwd", rg and gm in ("ambient", "enable_grad")))
        return r, fam

    def other_dtype(d):
        return "float64" if d == "float32" else "float32"

    def sibling(c, prog, o):
        """Re-issue an operation with ONE thing changed (dtype, values, layout,
        grad mode, None pattern...), before or after the original, usually on
        the same client: histories of the form 'nearly the same call twice',
        one of which may legitimately fail - state keyed by too little (shape
        but not dtype / mode / None pattern) lives here."""
        import copy as _copy
        sb = _copy.deepcopy(o)
        sb["id"] = new_id()
        nreg[0] += 1
        sb["out"] = "r%d" % nreg[0]
        sb["i6"] = False
        if o["op"] == "call":
            how = _wchoice(rng, [("dtype", 4), ("values", 2), ("layout", 1.5), ("grad", 3)])
            if how == "dtype":
                # the other precision, or (20 %) a reduced precision the pinned
                # library rejects - judged like any other call if accepted
                sb["arg"]["dtype"] = other_dtype(sb["arg"]["dtype"]) if rng.random() < 0.8 \
                    else _pick(rng, ["bfloat16", "float16", "bfloat16", "int64", "complex64"])
            elif how == "values":
                sb["arg"]["seed"] = rng.randrange(1 << 30)
            elif how == "layout":
                sb["arg"]["layout"] = _pick(rng, ["contig", "transposed", "step", "offset", "chlast"])
            else:
                sb["grad_mode"] = _pick(rng, ["ambient", "no_grad", "inference", "inference"])
                sb["requires_grad"] = not o["requires_grad"]
        else:
            how = _wchoice(rng, [("dtype", 4), ("mask", 3), ("perturb", 1), ("shape", 1)])
            if how == "dtype":
                sb["cast"] = _pick(rng, ["float64", "float32", "float64", "float32", "bfloat16"])
            elif how == "mask":
                sb["mask"] = [_pick(rng, ["keep", "none"]) for _ in range(3)]
            elif how == "perturb":
                sb["perturb"] = 0.5 if not o.get("perturb") else 0.0
            else:
                sb["as_tuple"] = not o.get("as_tuple")
            if rng.random() < 0.5 and not sb.get("mask"):
                sb["mask"] = o.get("mask") or ["keep", "keep", "none"]
        target = prog if (n_clients == 1 or rng.random() < 0.8) else programs[rng.randrange(n_clients)]
        if target is prog and rng.random() < 0.5:
            prog.insert(len(prog) - 1, sb)       # the variant first, then the original
        else:
            target.append(sb)
        knobs["siblings"] = knobs.get("siblings", 0) + 1

    for c in range(n_clients):
        n_ops = max(2, n_ops_total // n_clients + rng.randrange(-1, 2))
        prog = programs[c]
        for _ in range(n_ops):
            k = rng.choices(kinds, weights)[0]
            fwd_slots = [i for i, f in enumerate(slots) if f in catalog.INPUT_RANK]
            inv_slots = [i for i, f in enumerate(slots) if f in catalog.FWD_OF]
            if k == "construct":
                cs = rng.randrange(len(slots))
                have.add(cs)
                prog.append(construct_op(cs))
            elif k == "call":
                emit_call(c, prog, _pick(rng, fwd_slots))
                if profile != "C18" and rng.random() < 0.25:
                    sibling(c, prog, prog[-1])
            elif k == "roundtrip":
                pairs = [(i, j) for i in fwd_slots for j in inv_slots
                         if catalog.INV_OF.get(slots[i]) == slots[j]]
                if not pairs:
                    continue
                s, s2 = _pick(rng, pairs)
                need(c, prog, s)
                need(c, prog, s2)
                fam = slots[s]
                spec = catalog.gen_input_spec(fam, cur_params.get(s, {}), rng, small=knobs["small"])
                sd = slot_dtype.get(s, "float32")
                spec["dtype"] = sd if rng.random() < 0.9 else \
                    ("float64" if sd == "float32" else "float32")
                nreg[0] += 1
                r = "r%d" % nreg[0]
                gm = _wchoice(rng, [("ambient", 0.7), ("no_grad", 0.15), ("enable_grad", 0.15)])
                rg = rng.random() < 0.7
                prog.append({"op": "roundtrip", "id": new_id(), "slot": s, "slot2": s2, "arg": spec,
                             "requires_grad": rg, "grad_mode": gm, "out": r})
                regs[c].append((r, fam, "rt", rg and gm in ("ambient", "enable_grad")))
            elif k == "inverse":
                cands = [(r, f) for (r, f, kd, _) in regs[c] if kd == "fwd" and f in catalog.INV_OF
                         and catalog.INV_OF[f] in slots]
                if not cands:
                    withinv = [i for i in fwd_slots if catalog.INV_OF.get(slots[i]) in slots]
                    if not withinv:
                        continue
                    cands = [emit_call(c, prog, _pick(rng, withinv))]
                r, f = _pick(rng, cands)
                s = _pick(rng, [i for i in inv_slots if slots[i] == catalog.INV_OF[f]])
                need(c, prog, s)
                nreg[0] += 1
                out = "r%d" % nreg[0]
                mask = None
                if rng.random() < 0.45:
                    opts = ["keep", "none"] + (["zerodim"] if f == "dtf" else [])
                    mask = [_wchoice(rng, [(o, 2 if o == "keep" else 1) for o in opts])
                            for _ in range(3)]
                rg_low = rng.random() < 0.5
                rg_high = rng.random() < 0.5
                gm = _wchoice(rng, [("ambient", 0.7), ("no_grad", 0.15), ("inference", 0.05),
                                    ("enable_grad", 0.1)])
                prog.append({"op": "inverse", "id": new_id(), "slot": s, "src": r, "out": out,
                             "mask": mask, "perturb": _pick(rng, [0.0, 0.0, 0.5]),
                             "rg_low": rg_low, "rg_high": rg_high, "grad_mode": gm,
                             "seed": rng.randrange(1 << 30), "i6": rng.random() < 0.3,
                             "as_tuple": rng.random() < 0.2, "low_view": rng.random() < 0.2,
                             "high_view": rng.random() < 0.2,
                             "view_dims": [rng.randrange(6), rng.randrange(6)]})
                regs[c].append((out, catalog.INV_OF[f], "inv",
                                (rg_low or rg_high) and gm in ("ambient", "enable_grad")))
                if rng.random() < 0.35:
                    sibling(c, prog, prog[-1])
            elif k == "backward":
                cands = [r for (r, f, kd, rg) in regs[c] if rg]
                if not cands:
                    cands = [emit_call(c, prog, _pick(rng, fwd_slots), force_rg=True)[0]]
                prog.append({"op": "backward", "id": new_id(), "handle": _pick(rng, cands),
                             "seed": rng.randrange(1 << 30), "retain": rng.random() < 0.4,
                             "create_graph": rng.random() < 0.1,
                             "cot_layout": _pick(rng, ["contig", "contig", "contig", "contig", "bcast",
                                                       "bcast", "transposed", "step", "chlast",
                                                       "chlast", "rowstep", "chanslice", "offset",
                                                       "expand"]),
                             "out_mask": rng.randrange(0, 256) if rng.random() < 0.4 else 0,
                             "leaf_mask": rng.randrange(0, 256) if rng.random() < 0.4 else 0})
            elif k == "convert":
                cs = rng.randrange(len(slots))
                how = _pick(rng, ["double", "float", "to64", "to32", "double", "float",
                                  "double_overwrite", "float_overwrite", "reload_assign",
                                  "eval", "train", "parent_double", "parent_float",
                                  "type64", "type32", "tolike64", "tolike32", "cpu"])
                if catalog_target(how):
                    slot_dtype[cs] = catalog_target(how)
                cop = {"op": "convert", "id": new_id(), "slot": cs, "how": how}
                if rng.random() < 0.25 and cs in cur_params:
                    # in-place load of another configuration's checkpoint (same
                    # tensor objects, new values); filters of equal length preferred
                    cop["how"] = "load_other"
                    cop["params2"] = other_params(rng, slots[cs], cur_params[cs], knobs)
                    cop["params2"]["fuzz"] = 0
                prog.append(cop)
            elif k == "restart":
                rs = rng.randrange(len(slots))
                rop = {"op": "restart", "id": new_id(), "slot": rs,
                       "how": _pick(rng, ["deepcopy", "pickle", "state_dict"])}
                twins = [i for i, f in enumerate(slots) if f == slots[rs] and i != rs]
                if twins and rng.random() < 0.6:
                    # clone: the copy lives on next to the original
                    rop["dst"] = _pick(rng, twins)
                    have.add(rop["dst"])
                    slot_dtype[rop["dst"]] = slot_dtype.get(rs, "float32")
                    if rs in cur_params:
                        cur_params[rop["dst"]] = cur_params[rs]
                prog.append(rop)
                if "dst" in rop and rng.random() < 0.6:
                    # use the two copies differently right away: are they independent?
                    a, b = (rs, rop["dst"]) if rng.random() < 0.5 else (rop["dst"], rs)
                    how = _pick(rng, ["double", "float", "to64", "to32", "parent_double",
                                      "parent_float", "type64", "tolike32"])
                    slot_dtype[a] = catalog_target(how)
                    prog.append({"op": "convert", "id": new_id(), "slot": a, "how": how})
                    if slots[b] in catalog.INPUT_RANK:
                        emit_call(c, prog, b)
            elif k == "drop":
                ds = rng.randrange(len(slots))
                have.discard(ds)
                prog.append({"op": "drop", "id": new_id(), "slot": ds})
            elif k == "forget":
                if regs[c]:
                    r = regs[c].pop(rng.randrange(len(regs[c])))
                    prog.append({"op": "forget", "id": new_id(), "reg": r[0]})
            elif k == "mutate_output":
                if regs[c]:
                    i = rng.randrange(len(regs[c]))
                    r = regs[c][i]
                    regs[c][i] = (r[0], r[1], r[2], False)
                    prog.append({"op": "mutate_output", "id": new_id(), "reg": r[0],
                                 "index": rng.randrange(1 << 16)})
            elif k == "load":
                r = rng.random()
                if r < 0.85:      # a combination the reference defines
                    nm = _pick(rng, tables.ALL_NAMES)
                    ok = [ld for ld in tables.LOADERS if tables.expected(ld, nm)[0] == "ok"]
                    ld = _pick(rng, ok)
                elif r < 0.95:    # any combination (most raise ValueError)
                    nm, ld = _pick(rng, tables.ALL_NAMES), _pick(rng, tables.LOADERS)
                else:
                    nm, ld = _pick(rng, tables.INVALID), _pick(rng, tables.LOADERS)
                lop = {"op": "load", "id": new_id(), "loader": ld, "name": nm}
                if rng.random() < 0.12:
                    lop["form"] = _pick(rng, ["npstr", "strsub", "upper", "padded", "suffixed",
                                              "userpath", "userpath_npz", "userpathlib"])
                prog.append(lop)
            elif k == "newapi":
                prog.append({"op": "newapi", "id": new_id(), "index": rng.randrange(8),
                             "flip": rng.randrange(16)})
            elif k == "extra":
                prog.append({"op": "extra", "id": new_id(), "index": rng.randrange(8),
                             "name": _pick(rng, tables.ALL_NAMES), "flip": rng.randrange(8)})
            elif k == "set_default_dtype":
                cur_default[0] = _pick(rng, ["float32", "float64"])
                prog.append({"op": "set_default_dtype", "id": new_id(), "dtype": cur_default[0]})
            elif k == "func":
                prog.append(gen_func(rng, new_id(), knobs))
    # faults (about half of all runs are fault-free)
    faults = []
    budget = 0 if rng.random() < 0.5 else (rng.randrange(1, 4) if not deep else rng.randrange(1, 7))
    if marathon:
        budget = 0
    targets = [(c, o) for c in range(n_clients) for o in programs[c] if o["op"] in LMAX]
    for _ in range(budget):
        if not targets:
            break
        c, o = _pick(rng, targets)
        faults.append(gen_fault(rng, profile, c, o, slots))
    knobs["fault_budget"] = budget
    knobs["horizon"] = 150 * sum(len(p) for p in programs)
    if storm:
        knobs["horizon"] = 70 * (len(slots) + 1)
    return {"version": 1, "profile": profile, "property": profile, "seed": seed, "knobs": knobs,
            "slots": slots, "programs": programs, "faults": faults}


SAME_LENGTH = [["db2", "sym2"], ["db3", "sym3", "coif1"], ["db4", "sym4"], ["db7", "sym7"],
               ["bior2.4", "rbio2.4", "db5", "sym5"], ["bior1.3", "rbio1.3", "db3"],
               ["db12", "sym12", "coif4"], ["sym8", "db8"]]


def other_params(rng, family, p, knobs):
    """Another configuration of the same class whose buffers have (preferably)
    the same shapes."""
    import copy as _copy
    q = _copy.deepcopy(p)
    if "wave" in q and q["wave"].get("kind") in ("name", "pywt", "tuple2"):
        nm = q["wave"]["name"]
        groups = [g for g in SAME_LENGTH if nm in g]
        if groups:
            q["wave"] = {"kind": "name", "name": _pick(rng, [x for x in _pick(rng, groups) if x != nm] or [nm])}
            return q
    if family in ("dtf", "dti", "scat2", "dt2f") and "qshift" in q and q["qshift"] in ("qshift_06", "qshift_a"):
        q["qshift"] = "qshift_a" if q["qshift"] == "qshift_06" else "qshift_06"
        q.pop("qshift_tuple", None)
        return q
    return catalog.gen_params(family, rng, knobs.get("simple_waves", False))


def gen_func(rng, oid, knobs):
    fn = _pick(rng, FUNCS)
    pool = catalog.SIZES_2D[2:9]
    N, C = _pick(rng, [1, 2]), _pick(rng, [1, 2, 3])
    H, W = _pick(rng, pool), _pick(rng, pool)
    dtype = "float32" if rng.random() < 0.8 else "float64"

    def spec(shape):
        return {"shape": shape, "dtype": dtype, "layout": "contig" if rng.random() < 0.7
                else _pick(rng, ["transposed", "step", "offset"]),
                "seed": rng.randrange(1 << 30), "scale": 1.0}
    mode = _pick(rng, ["zero", "symmetric", "periodization", "reflect", "periodic"])
    op = {"op": "func", "id": oid, "fn": fn, "wave": _pick(rng, catalog.WAVES_SIMPLE + ["db4"]),
          "mode": mode, "prep": rng.random() < 0.5,
          "grad_mode": _pick(rng, ["ambient", "ambient", "ambient", "no_grad", "inference"]),
          "requires_grad": rng.random() < 0.3, "alias_args": rng.random() < 0.1}
    if fn == "prepfn":
        op["args"] = []
        op["pick"] = rng.randrange(64)
        op["loader"] = _pick(rng, ["qshift", "qshift", "level1", "biort", "level1c"])
        op["name"] = _pick(rng, catalog.QSHIFTS if op["loader"] == "qshift" else
                           ["farras", "near_sym_a2"] + list(catalog.BIORTS))
        op["prep"] = False
        op["requires_grad"] = False
        op["alias_args"] = False
    elif fn == "cplxdual2D":
        op["args"] = [spec([N, C, _pick(rng, [8, 16, 24]), _pick(rng, [8, 16, 24])])]
        op["J"] = rng.randrange(1, 3)
        op["level1"] = _pick(rng, ["farras", "farras", "near_sym_a2", "qshift_a"])
        op["qshift"] = _pick(rng, catalog.QSHIFTS)
        op["mode"] = _pick(rng, ["periodization", "zero", "symmetric"])
        op["prep"] = False
    elif fn in ("afb2d", "afb2d_nonsep", "afb1d"):
        op["args"] = [spec([N, C, H, W])]
    elif fn == "afb2d_atrous":
        op["args"] = [spec([N, C, H, W])]
        op["mode"] = _pick(rng, ["periodic", "symmetric", "zero"])
        op["dilation"] = _pick(rng, [1, 2])
    elif fn == "sfb2d":
        op["args"] = [spec([N, C, H, W]) for _ in range(4)]
    elif fn == "sfb2d_nonsep":
        op["args"] = [spec([N, C, 4, H, W])]
    elif fn == "sfb1d":
        op["args"] = [spec([N, C, H, W]) for _ in range(2)]
    if fn in ("afb1d", "sfb1d"):
        op["dim"] = _pick(rng, [-1, 2, 3])
        op["prep"] = False
    return op


def gen_fault(rng, profile, c, o, slots):
    kind_pool = [("op_error", 3), ("async_exc", 2), ("c_error", 2)]
    io_capable = o["op"] == "load" or (o["op"] in ("construct", "restart")
                                       and slots[o["slot"]] in IO_FAMILIES) \
        or (o["op"] == "func" and o.get("fn") in ("cplxdual2D", "prepfn"))
    if io_capable:
        w = 6 if profile == "C18" else 2
        kind_pool += [("io_open", w), ("io_read", w), ("io_eof", w)]
        if profile == "C18":
            # an inverted stored byte is modelled as persistent for the run and
            # judged with the table-specific relaxation of tables.py
            kind_pool += [("io_flip", w)]
    kind = _wchoice(rng, kind_pool)
    f = {"client": c, "op_id": o["id"], "kind": kind}
    if kind == "c_error":
        # the n-th torch / numpy C call made directly by a library frame fails
        f["exc"] = _pick(rng, ["RuntimeError", "RuntimeError", "MemoryError"])
        f["at"] = _logu(rng, 1, max(8, LMAX[o["op"]] // 6))
    elif kind == "op_error":
        f["exc"] = _pick(rng, ["RuntimeError", "RuntimeError", "MemoryError"])
        f["at"] = _logu(rng, 1, LMAX[o["op"]])
    elif kind == "async_exc":
        f["exc"] = _pick(rng, ["KeyboardInterrupt", "SimCancel"])
        f["at"] = _logu(rng, 1, LMAX[o["op"]])
    elif kind == "io_open":
        f["exc"] = _pick(rng, ["FileNotFoundError", "PermissionError", "EMFILE"])
        f["at"] = 1 if rng.random() < 0.8 else 2
    elif kind == "io_read":
        f["at"] = _logu(rng, 1, 60)
        # the error the read fails with (plain EIO or a transient one) and for
        # how many consecutive reads the condition lasts
        f["exc"] = _pick(rng, ["EIO", "EIO", "EIO", "EINTR", "EAGAIN", "ETIMEDOUT"])
        f["burst"] = _pick(rng, [1, 1, 1, 2, 3, 4])
    else:
        f["at"] = 1 if rng.random() < 0.8 else 2
        f["arg"] = rng.randrange(1 << 20)
    return f


# ---------------------------------------------------------------------------
# C18: systematic single-fault enumeration (labelled as enumeration, reported
# separately from the seeded search)

def table_sizes():
    """{name: (bytes, stream calls of one fault-free load)} measured on the
    current tree through the library's own resource lookup."""
    from . import env, seams
    L = seams.fresh_library(patch_stream=False)
    out = {}

    class Cnt:
        io_enabled = True
        n = 0

        def on_io(self, what, name):
            self.n += 1

        def on_open(self, name):
            return None
    import os
    ddir = os.path.join(os.path.dirname(L.coeffs.__file__), "data")
    for nm in tables.ALL_NAMES:
        with open(os.path.join(ddir, nm + ".npz"), "rb") as f:
            data = f.read()
        c = Cnt()
        st = seams.FaultyStream(data, c, nm)
        import numpy as np
        with st as f:
            dict(np.load(f))
        out[nm] = (len(data), c.n)
    return out


def sweep_plans(tier, sizes=None):
    """Explicit single-client plans: one faulted load, then fault-free loads
    of the same table through every entry point that defines it (the harness
    adds the I5/T5 retry and the end-of-run load of every table)."""
    sizes = sizes or table_sizes()
    stride = {"quick": 41, "thorough": 1}[tier]
    plans = []
    idx = [0]

    def plan(nm, fault, tag):
        lds = [ld for ld in tables.LOADERS if tables.expected(ld, nm)[0] == "ok"]
        first = lds[idx[0] % len(lds)]
        prog = [{"op": "load", "id": 1, "loader": first, "name": nm}]
        for j, ld in enumerate(lds):
            prog.append({"op": "load", "id": 2 + j, "loader": ld, "name": nm})
        f = dict(fault, client=0, op_id=1)
        idx[0] += 1
        return {"version": 1, "profile": "C18", "property": "C18", "seed": -idx[0],
                "sweep": tag, "knobs": {"n_clients": 1, "policy": "boundary", "switch_prob": 0.0},
                "slots": [], "programs": [prog], "faults": [f], "schedule": []}
    k = 0
    for nm in tables.ALL_NAMES:
        nbytes, nio = sizes[nm]
        for exc in ("FileNotFoundError", "PermissionError", "EMFILE"):
            plans.append(plan(nm, {"kind": "io_open", "exc": exc, "at": 1}, "io_open"))
        for at in range(1, nio + 2):
            k += 1
            if tier == "thorough" or k % 7 == 0:
                plans.append(plan(nm, {"kind": "io_read", "at": at}, "io_read"))
            if tier == "thorough" or k % 7 == 3:
                # transient conditions lasting over several consecutive reads
                for exc, burst in (("EINTR", 2), ("ETIMEDOUT", 3), ("EAGAIN", 5)):
                    plans.append(plan(nm, {"kind": "io_read", "at": at, "exc": exc, "burst": burst},
                                      "io_read_transient"))
        for off in range(0, nbytes):
            k += 1
            if k % stride == 0:
                plans.append(plan(nm, {"kind": "io_eof", "at": 1, "arg": off}, "io_eof"))
        for off in range(0, nbytes):
            for bit in (0, 7):
                k += 1
                if k % stride == 0:
                    plans.append(plan(nm, {"kind": "io_flip", "at": 1, "arg": off * 8 + bit}, "io_flip"))
    return plans
