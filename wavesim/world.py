"""The simulated world: executes one plan under the scheduler, records the
history, evaluates run-time invariants; then (single-threaded, faults off)
evaluates the history against the history-free reference (reference.py).

run_plan(plan) -> result dict (violations, stats, fingerprint, recorded
explicit schedule).  Pure function of (plan, library code).
"""
import copy
import gc
import hashlib
import io
import pickle
import sys
import threading

import numpy as np

from . import catalog, env, seams, tables
from .sched import (BoundaryOnly, Deadlock, Explicit, PCT, RandomWalk, SchedAbort,
                    Scheduler)
from .tensors import (DT, DTNAME, flat_tensors, make_tensor, raw_bytes, snap,
                      snap_digest, storage_bytes)

import random


class SimCancel(BaseException):
    """Injected asynchronous cancellation."""


class Abort(BaseException):
    pass


LINE_EXC = {
    "RuntimeError": lambda: RuntimeError("[sim] DefaultCPUAllocator: not enough memory: you tried to "
                                         "allocate 1073741824 bytes (out of memory, injected)"),
    "MemoryError": lambda: MemoryError("[sim] injected"),
    "KeyboardInterrupt": lambda: KeyboardInterrupt("[sim] injected"),
    "SimCancel": lambda: SimCancel("[sim] injected"),
}


_site_cache = {}
_API_BASE = None


def fault_site_ok(filename, lineno):
    """Line faults model *a statement of the library failing* (any tensor op
    can: out of memory) or a cancellation arriving while it runs.  They are
    delivered by raising from the line tracer, which CPython treats as raised
    *before* the line's first instruction: the exception table entry that starts
    at that very instruction does not apply.  Raising at the first line of a
    `try`/`with` body (or at the `try:` / `with` header, which is also where
    the implicit __exit__ call is attributed) would therefore skip the
    finally/__exit__ that protects the statement - something no failing
    statement can do.  Such lines are not fault sites (the fault moves to the
    next traced line).  Neither is cleanup code - `finally` bodies and `except`
    bodies that re-raise - where a failure is a double fault no library
    survives."""
    ex = _site_cache.get(filename)
    if ex is None:
        import ast
        ex = set()
        try:
            with open(filename, "rb") as fh:
                tree = ast.parse(fh.read())
        except Exception:  # noqa
            tree = None

        def span(stmts):
            for st in stmts:
                for ln in range(st.lineno, (st.end_lineno or st.lineno) + 1):
                    ex.add(ln)
        if tree is not None:
            # a statement that calls nothing (a plain assignment, `n += 1`, `pass`,
            # `return x`) cannot fail in a real execution; an exception "between"
            # two such statements would break correct lock-protected two-step
            # updates that no real fault can break
            simple = (ast.Assign, ast.AugAssign, ast.AnnAssign, ast.Return, ast.Expr, ast.Delete,
                      ast.Pass, ast.Break, ast.Continue, ast.Global, ast.Nonlocal, ast.Assert,
                      ast.Raise)
            for node in ast.walk(tree):
                if isinstance(node, simple) and not any(
                        isinstance(sub, (ast.Call, ast.Await)) for sub in ast.walk(node)):
                    for ln in range(node.lineno, (node.end_lineno or node.lineno) + 1):
                        ex.add(ln)
            for node in ast.walk(tree):
                if isinstance(node, (ast.With, ast.AsyncWith)):
                    first = node.body[0].lineno if node.body else node.lineno + 1
                    for ln in range(node.lineno, max(node.lineno + 1, first)):
                        ex.add(ln)
                    if node.body:
                        ex.add(node.body[0].lineno)
                elif isinstance(node, ast.Try):
                    ex.add(node.lineno)
                    if node.body:
                        ex.add(node.body[0].lineno)
                    span(node.finalbody)
                    for h in node.handlers:
                        if any(isinstance(st, ast.Raise) and st.exc is None for st in h.body):
                            span(h.body)
        _site_cache[filename] = ex
    return lineno not in ex


class Instance:
    __slots__ = ("iid", "family", "mod", "recipe", "inflight", "slot")

    def __init__(self, iid, family, mod, recipe, slot):
        self.iid = iid
        self.family = family
        self.mod = mod
        self.recipe = recipe
        self.inflight = 0
        self.slot = slot


class Handle:
    __slots__ = ("rec", "outputs", "leaves", "dirty", "graph_alive", "family",
                 "out_snap", "kind", "arg_ptrs", "insts")

    def __init__(self, rec, outputs, leaves, family, kind, arg_tensors=(), insts=()):
        self.insts = list(insts)
        self.arg_ptrs = set(t.untyped_storage().data_ptr() for t in arg_tensors)
        self.rec = rec
        self.outputs = outputs
        self.leaves = leaves
        self.dirty = False
        self.graph_alive = True
        self.family = family
        self.kind = kind
        self.out_snap = rec.get("out_snap")


def call_with_mode(torch, fn, mode):
    if mode == "ambient":
        return fn()
    if mode == "no_grad":
        with torch.no_grad():
            return fn()
    if mode == "inference":
        with torch.inference_mode():
            return fn()
    if mode == "enable_grad":
        with torch.enable_grad():
            return fn()
    raise ValueError(mode)


def apply_convert(mod, how, torch):
    if how == "double":
        return mod.double()
    if how == "float":
        return mod.float()
    if how == "to64":
        return mod.to(torch.float64)
    if how == "to32":
        return mod.to(dtype=torch.float32)
    if how in ("double_overwrite", "float_overwrite"):
        # torch's opt-in conversion semantics: install NEW Parameter objects
        # instead of swapping .data of the existing ones
        import torch.__future__ as fut
        old = fut.get_overwrite_module_params_on_conversion()
        fut.set_overwrite_module_params_on_conversion(True)
        try:
            return mod.double() if how == "double_overwrite" else mod.float()
        finally:
            fut.set_overwrite_module_params_on_conversion(old)
    if how in ("parent_double", "parent_float"):
        # converted as a submodule of the user's network
        net = torch.nn.Sequential(mod)
        net.double() if how == "parent_double" else net.float()
        return mod
    if how in ("type64", "type32"):
        return mod.type(torch.float64 if how == "type64" else torch.float32)
    if how in ("tolike64", "tolike32"):
        return mod.to(torch.zeros(1, dtype=torch.float64 if how == "tolike64" else torch.float32))
    if how == "cpu":
        return mod.cpu()
    if how == "eval":
        return mod.eval()
    if how == "train":
        return mod.train()
    if how == "reload_assign":
        # checkpoint reload that replaces the parameter/buffer objects
        sd = {k: v.detach().clone() for k, v in mod.state_dict().items()}
        mod.load_state_dict(sd, assign=True)
        return mod
    raise ValueError(how)


CONVERT_TARGET = {"double": "float64", "to64": "float64", "float": "float32", "to32": "float32",
                  "double_overwrite": "float64", "float_overwrite": "float32",
                  "parent_double": "float64", "parent_float": "float32",
                  "type64": "float64", "type32": "float32",
                  "tolike64": "float64", "tolike32": "float32",
                  "reload_assign": None, "eval": None, "train": None, "cpu": None}


def tensor_state(mod):
    """Every buffer and parameter of a module by name - persistent or not
    (state_dict() leaves non-persistent buffers out)."""
    out = {}
    for k, v in mod.named_buffers():
        out["b:" + k] = v.detach().clone()
    for k, v in mod.named_parameters():
        out["p:" + k] = v.detach().clone()
    return out


def put_tensor_state(mod, state):
    """Give `mod` the recorded buffer/parameter values (cast to its dtypes)."""
    import torch
    cur = {"b:" + k: v for k, v in mod.named_buffers()}
    cur.update({"p:" + k: v for k, v in mod.named_parameters()})
    if set(cur) != set(state) or any(cur[k].shape != state[k].shape for k in cur):
        raise ValueError("recorded tensors do not fit this module")
    with torch.no_grad():
        for k, v in cur.items():
            v.copy_(state[k])
    return mod


def module_state_snap(mod):
    """Buffers/parameters (values) + plain attributes of a module."""
    items = []
    sd = tensor_state(mod)
    for k in sorted(sd):
        items.append((k, snap(sd[k])))
    attrs = {}
    for k, v in sorted(mod.__dict__.items()):
        if k.startswith("_") or k == "training":
            continue
        try:
            attrs[k] = repr(v) if not isinstance(v, np.ndarray) else repr(v.tolist())
        except Exception:
            attrs[k] = type(v).__name__
    return ("U", [("U", [("S", k), s]) for k, s in items] + [("S", repr(sorted(attrs.items())))])


_TRIVIAL_C = frozenset(["get_default_dtype", "is_grad_enabled", "size", "dim", "stride", "numel",
                        "is_contiguous", "is_floating_point", "is_complex", "type", "data_ptr",
                        "storage_offset", "_is_view", "is_inference", "requires_grad_"])


def alloc_capable(fn):
    """A C function of torch / numpy that can fail for lack of memory."""
    if getattr(fn, "__name__", "") in _TRIVIAL_C:
        return False
    mod = getattr(fn, "__module__", None) or ""
    if mod.startswith(("torch", "numpy")):
        return True
    slf = getattr(fn, "__self__", None)
    if slf is not None:
        import torch
        if isinstance(slf, (torch.Tensor, np.ndarray)):
            return True
    return False


class Client:
    def __init__(self, world, idx, program):
        self.world = world
        self.idx = idx
        self.program = program
        self.regs = {}
        self.op = None
        self.k = 0
        self.lines = 0
        self.ios = 0
        self.opens = 0
        self.pending = []      # faults armed for the current attempt
        self.burst = [0, "EIO"]
        self.reinstall_profile = False
        self.fired = []
        self.io_enabled = True
        self.waiting_lock = False
        self.tracing = False
        prefix = env.LIB_PREFIX
        world_ = world

        def local_trace(frame, event, arg):
            if event == "line":
                self.on_line(frame)
            return local_trace

        def global_trace(frame, event, arg):
            if frame.f_code.co_filename.startswith(prefix):
                return local_trace
            return None
        self.tracer = global_trace

        fine = bool(world_.plan.get("knobs", {}).get("fine"))

        def profiler(frame, event, arg):
            # finer pre-emption (a quarter of the runs): the return of every C
            # function called directly from a library frame is a decision
            # point too, which splits source lines such as
            # `table[k] = table.get(k, 0) + 1` or `if k not in cache: cache.clear()`
            if event == "c_return":
                if fine and frame.f_code.co_filename.startswith(prefix):
                    self.on_creturn()
            elif event == "c_call" and self.c_faults and frame.f_code.co_filename.startswith(prefix):
                # a failure INSIDE a torch / numpy call made by the library: the
                # call raises instead of running (unlike a line-level fault this
                # one lands inside any `try:` that encloses the call)
                self.on_ccall(frame, arg)
        self._profiler = profiler
        self.fine = fine
        self.profiler = profiler if fine else None
        self.c_faults = False
        self.ccalls = 0

    # ---- decision / fault points ------------------------------------------
    def on_line(self, frame):
        w = self.world
        if self.reinstall_profile:
            self.reinstall_profile = False
            if self.profiler is not None and sys.getprofile() is None:
                sys.setprofile(self.profiler)
        self.lines += 1
        self.k += 1
        w.stats["lines"] += 1
        fn = frame.f_code.co_filename
        site = (fn[len(env.LIB_PREFIX):], frame.f_lineno)
        w.sites.add(site)
        for f in self.pending:
            if f["kind"] in ("op_error", "async_exc") and f["at"] == self.lines:
                if not fault_site_ok(fn, frame.f_lineno):
                    f["at"] += 1      # not a point where a statement can fail
                    w.stats["faults_deferred"] = w.stats.get("faults_deferred", 0) + 1
                    break
                self.pending.remove(f)
                self.fired.append(f)
                w.fault_fired(self, f, site)
                raise LINE_EXC[f["exc"]]()
        w.sched.decide(self.idx, [self.idx, self.op["id"], self.k], in_lib=True)

    def on_ccall(self, frame, fn):
        if not alloc_capable(fn):
            return
        self.ccalls += 1
        for f in self.pending:
            if f["kind"] == "c_error" and f["at"] == self.ccalls:
                w = self.world
                self.pending.remove(f)
                self.fired.append(f)
                self.c_faults = any(g["kind"] == "c_error" for g in self.pending)
                self.reinstall_profile = True      # raising switches the profiler off
                w.fault_fired(self, f, (frame.f_code.co_filename[len(env.LIB_PREFIX):],
                                        "%d@%s" % (frame.f_lineno, getattr(fn, "__name__", "?"))))
                raise LINE_EXC[f["exc"]]()

    def on_creturn(self):
        w = self.world
        self.k += 1
        w.stats["c_returns"] = w.stats.get("c_returns", 0) + 1
        w.sched.decide(self.idx, [self.idx, self.op["id"], self.k], in_lib=True)

    def on_io(self, what, name):
        w = self.world
        self.ios += 1
        self.k += 1
        w.stats["io_events"] += 1
        for f in self.pending:
            if f["kind"] == "io_read" and f["at"] == self.ios:
                self.pending.remove(f)
                self.fired.append(f)
                w.fault_fired(self, f, ("io", what))
                # a transient condition may persist over the next few reads
                self.burst = [int(f.get("burst", 1)) - 1, f.get("exc", "EIO")]
                raise seams.read_error(self.burst[1])
        if what == "read" and self.burst[0] > 0:
            self.burst[0] -= 1
            w.probe("io_burst_reads")
            raise seams.read_error(self.burst[1])
        w.sched.decide(self.idx, [self.idx, self.op["id"], self.k], in_lib=True)

    def on_open(self, name):
        import os as _os
        name = _os.path.basename(str(name))     # never a process-specific directory
        w = self.world
        self.opens += 1
        self.k += 1
        w.stats["io_opens"] += 1
        # a stored byte inverted earlier in this run stays inverted
        mod = w.corrupt.get(name)
        for f in list(self.pending):
            if f["kind"] in ("io_open", "io_eof", "io_flip") and f["at"] == self.opens:
                self.pending.remove(f)
                self.fired.append(f)
                w.fault_fired(self, f, ("open", name))
                if f["kind"] == "io_open":
                    raise seams.OPEN_ERRORS[f["exc"]]()
                mod = ("eof" if f["kind"] == "io_eof" else "flip", f["arg"])
                if f["kind"] == "io_flip":
                    w.corrupt[name] = mod
        w.sched.decide(self.idx, [self.idx, self.op["id"], self.k], in_lib=True)
        return mod

    def on_sync(self, what):
        """an intercepted synchronisation point (simulated lock)"""
        self.k += 1
        self.world.stats["sync_points"] = self.world.stats.get("sync_points", 0) + 1
        self.world.sched.decide(self.idx, [self.idx, self.op["id"], self.k], in_lib=True)

    def yield_now(self):
        """a voluntary yield of the library (timed wait, sleep): others run
        first if they can"""
        self.k += 1
        self.world.stats["yields"] = self.world.stats.get("yields", 0) + 1
        self.world.sched.decide(self.idx, [self.idx, self.op["id"], self.k], in_lib=True,
                                yielding=True)

    def wait_for(self, pred):
        w = self.world
        self.k += 1
        w.stats["lock_waits"] = w.stats.get("lock_waits", 0) + 1
        was = sys.gettrace()
        wasp = sys.getprofile()
        sys.settrace(None)
        sys.setprofile(None)
        self.waiting_lock = True
        try:
            w.sched.block(self.idx, [self.idx, self.op["id"], self.k], pred)
            self.waiting_lock = False
            w.sched.state[self.idx] = "ready"
            w.sched.pred[self.idx] = None
        finally:
            sys.setprofile(wasp)
            sys.settrace(was)

    # ---- running library code ---------------------------------------------
    def guarded(self, fn):
        """Run fn (library code) traced; returns ("ok", value) or
        ("raise", exc)."""
        try:
            if self.profiler is not None:
                sys.setprofile(self.profiler)
            sys.settrace(self.tracer)
            try:
                v = fn()
            finally:
                sys.settrace(None)
                if self.profiler is not None:
                    sys.setprofile(None)
            return "ok", v
        except (Abort, Deadlock):
            raise
        except BaseException as e:  # noqa - injected BaseExceptions included
            if isinstance(e, SchedAbort):
                raise
            return "raise", e

    # ---- thread body --------------------------------------------------------
    def main(self):
        w = self.world
        sched = w.sched
        sched.sems[self.idx].acquire()
        if sched.abort:
            return
        seams.set_current_client(self)
        try:
            for op in self.program:
                self.run_op(op)
        except (Abort, SystemExit):
            return
        except BaseException as e:  # harness bug
            import traceback
            w.harness_error = "client %d: %s\n%s" % (self.idx, e, traceback.format_exc())
        finally:
            seams.set_current_client(None)
        try:
            sched.finish(self.idx)
        except (Abort, SystemExit):
            pass

    def run_op(self, op):
        w = self.world
        self.op = op
        self.k = 0
        w.sched.decide(self.idx, [self.idx, op["id"], 0])
        pred = w.block_pred(self, op)
        if pred is not None and not pred():
            w.stats["blocked"] += 1
            w.sched.block(self.idx, [self.idx, op["id"], -1], pred)
            w.sched.state[self.idx] = "ready"
            w.sched.pred[self.idx] = None
        faults = [f for f in w.plan.get("faults", [])
                  if f["client"] == self.idx and f["op_id"] == op["id"]]
        rec = self.attempt(op, faults, retry_of=None)
        if rec is not None and rec.get("fired") and rec["outcome"].startswith("raise"):
            # I5 / T5: once faults stop, one fault-free attempt must behave
            # like the reference
            w.stats["retries"] += 1
            self.attempt(op, [], retry_of=rec)
        if w.stale_waiter is self:
            w.stale_waiter = None      # the hazard sequence of this client is over

    def attempt(self, op, faults, retry_of):
        w = self.world
        self.lines = 0
        self.ios = 0
        self.opens = 0
        self.pending = [dict(f) for f in faults]
        self.fired = []
        self.burst = [0, "EIO"]
        self.ccalls = 0
        self.c_faults = any(f["kind"] == "c_error" for f in self.pending)
        self.profiler = self._profiler if (self.fine or self.c_faults) else None
        rec = {"client": self.idx, "op_id": op["id"], "op": op, "kind": op["op"],
               "seq0": w.next_seq(), "retry": retry_of is not None,
               "armed": len(faults)}
        w.interleave.append(("s", self.idx, op["id"]))
        handler = getattr(w, "op_" + op["op"])
        handler(self, op, rec)
        rec["seq1"] = w.next_seq()
        rec["fired"] = [dict(f) for f in self.fired]
        rec["lines"] = self.lines
        w.interleave.append(("e", self.idx, op["id"]))
        self.pending = []
        w.records.append(rec)
        w.after_op(self, rec)
        w.log(("op", self.idx, op["id"], op["op"], rec["outcome"],
               rec.get("out_digest", ""), len(rec["fired"])))
        return rec


class World:
    def __init__(self, plan):
        self.plan = plan
        self.profile = plan["profile"]
        self.L = None
        self.slots = {}
        self.records = []
        self.violations = []
        self.interleave = []
        self.events = []
        self.sites = set()
        self.fault_sites = set()
        self.seq = 0
        self.iid = 0
        self.intended_default = "float32"
        self.dtype_sensitive = 0
        self.harness_error = None
        self.signaled = False
        self.arrived = 0
        self.corrupt = {}      # file name -> persistent ("flip", bit) corruption
        self.lib_fds = set()   # descriptors the library opened with os.open and still owns
        self.os_opens = 0
        self.stale_waiter = None   # client between a stale os.close and its next os.open
        self.live_args = []
        self.handles = []
        self.probes = {}
        self.stats = {k: 0 for k in (
            "lines", "io_events", "io_opens", "blocked", "retries", "ops",
            "skipped", "calls_on_shared_instance")}
        self.fault_counts = {}
        self.sched = None

    # ---- small helpers ------------------------------------------------------
    def next_seq(self):
        self.seq += 1
        return self.seq

    def log(self, ev):
        self.events.append(ev)

    def probe(self, name, n=1):
        self.probes[name] = self.probes.get(name, 0) + n

    def violation(self, invariant, rec, msg):
        prop = self.plan["property"]
        v = {"property": prop, "invariant": invariant,
             "client": rec.get("client") if rec else None,
             "op_id": rec.get("op_id") if rec else None,
             "op": rec.get("kind") if rec else None,
             "family": rec.get("family") if rec else None,
             "message": msg}
        self.violations.append(v)
        self.log(("viol", invariant, v["client"], v["op_id"]))

    def fault_fired(self, cl, f, site):
        self.fault_counts[f["kind"]] = self.fault_counts.get(f["kind"], 0) + 1
        self.fault_sites.add(site)
        self.log(("fault", cl.idx, cl.op["id"], f["kind"], f["at"], repr(site)))

    def block_pred(self, cl, op):
        k = op["op"]
        if k in ("convert", "restart"):
            slot = op["slot"]

            def pred():
                inst = self.slots.get(slot)
                return inst is None or inst.inflight == 0
            return pred
        if k == "set_default_dtype":
            return lambda: self.dtype_sensitive == 0
        if k == "wait":
            return lambda: self.signaled
        if k == "barrier":
            self.arrived += 1          # block_pred is evaluated once per op
            n = len(self.plan["programs"])
            return lambda: self.arrived >= n
        return None

    # ---- invariants evaluated while the run proceeds ----------------------------
    def after_op(self, cl, rec):
        torch = self.L.torch
        self.stats["ops"] += 1
        if rec["outcome"].startswith("skip"):
            self.stats["skipped"] += 1
        # environment the library must leave alone (probes; turned into
        # observable differences by the end-of-run canaries)
        if DTNAME.get(torch.get_default_dtype()) != self.intended_default:
            self.probe("default_dtype_leak")
        if not torch.is_grad_enabled():
            self.probe("grad_mode_leak")
        if self.profile == "C18":
            tables.peek_cache(self, cl, rec)

    # ---- operations -----------------------------------------------------------
    def _skip(self, rec, why):
        rec["outcome"] = "skip:" + why

    def _finish(self, cl, rec, status, val):
        if status == "ok":
            rec["outcome"] = "ok"
        else:
            rec["outcome"] = "raise:" + type(val).__name__
            rec["exc_msg"] = str(val)[:200]
        if cl.fired:
            rec["faulted"] = True

    def op_construct(self, cl, op, rec):
        slot = op["slot"]
        family = self.plan["slots"][slot]
        rec["family"] = family
        rec["default_dtype"] = self.intended_default
        given = []
        self.dtype_sensitive += 1
        try:
            status, val = cl.guarded(lambda: catalog.build(family, op["params"], given))
        finally:
            self.dtype_sensitive -= 1
        self._finish(cl, rec, status, val)
        for a, before in given:
            if a.tobytes() != before:
                self.violation("I1-arg-mutated", rec, "a filter array passed to the constructor "
                               "was modified")
                break
        if status == "ok":
            self.iid += 1
            recipe = [["construct", family, op["params"], rec["default_dtype"]]]
            self.slots[slot] = Instance(self.iid, family, val, recipe, slot)
            rec["out_snap"] = module_state_snap(val)
            rec["out_digest"] = snap_digest(rec["out_snap"])
            rec["recipe"] = recipe

    def op_convert(self, cl, op, rec):
        inst = self.slots.get(op["slot"])
        if inst is None:
            return self._skip(rec, "empty-slot")
        torch = self.L.torch
        if op["how"] == "load_other":
            # checkpoint of a differently configured module of the same class
            # loaded IN PLACE into the live module (load_state_dict copies into
            # the existing tensors); skipped if the shapes do not match
            step = ["load_other", inst.family, op["params2"], self.intended_default]
            self.dtype_sensitive += 1
            try:
                # building the other module runs (pre-emptible) library code ...
                status, other = cl.guarded(lambda: catalog.build(step[1], step[2]))
            finally:
                self.dtype_sensitive -= 1
            if status != "ok":
                return self._skip(rec, "load-other-failed")
            # ... the load itself is one atomic step on an idle module
            if inst.inflight > 0:
                cl.wait_for(lambda: inst.inflight == 0)
            try:
                load_other(inst.mod, step, other)
            except Exception:  # noqa - shapes do not match
                return self._skip(rec, "load-other-failed")
            for h in self.handles:
                if h.rec.get("iid") == inst.iid or h.rec.get("iid2") == inst.iid:
                    h.graph_alive = False     # saved filters were overwritten in place
            inst.recipe = inst.recipe + [step]
            rec["outcome"] = "ok"
            return
        inst.mod = apply_convert(inst.mod, op["how"], torch)
        inst.recipe = inst.recipe + [["convert", op["how"]]]
        rec["outcome"] = "ok"
        # torch semantics, not the library's: nn.Module._apply rewrites
        # Parameter.data in place, so a graph recorded before the conversion
        # holds filters of the new dtype.  Converting a module between a
        # forward and its backward is the user's error; such graphs are not
        # used for backward any more.
        for h in self.handles:
            if h.rec.get("iid") == inst.iid or h.rec.get("iid2") == inst.iid:
                if h.graph_alive:
                    h.graph_alive = False
                    self.probe("graph_invalidated_by_convert")

    def op_restart(self, cl, op, rec):
        inst = self.slots.get(op["slot"])
        if inst is None:
            return self._skip(rec, "empty-slot")
        how = op["how"]
        rec["default_dtype"] = self.intended_default
        step = ["restart", how, self.intended_default]
        # copying / checkpointing a module while another client converts it is
        # the user's race: the restart pins the instance like a call does
        self.dtype_sensitive += 1
        inst.inflight += 1
        try:
            status, val = cl.guarded(lambda: do_restart(self.L, inst.mod, inst.recipe, step))
        finally:
            inst.inflight -= 1
            self.dtype_sensitive -= 1
        self._finish(cl, rec, status, val)
        if status == "ok":
            self.iid += 1
            recipe = inst.recipe + [step]
            # "dst": the copy goes to another slot of the same family and the
            # original stays in use (clone); otherwise it replaces the original
            dst = op.get("dst", op["slot"])
            if self.plan["slots"][dst] != self.plan["slots"][op["slot"]]:
                dst = op["slot"]
            self.slots[dst] = Instance(self.iid, inst.family, val, recipe, dst)
            rec["family"] = inst.family
            rec["recipe"] = recipe
            rec["out_snap"] = module_state_snap(val)
            rec["out_digest"] = snap_digest(rec["out_snap"])

    def op_signal(self, cl, op, rec):
        self.signaled = True
        rec["outcome"] = "ok"

    def op_wait(self, cl, op, rec):
        rec["outcome"] = "ok"

    def op_barrier(self, cl, op, rec):
        rec["outcome"] = "ok"

    def op_drop(self, cl, op, rec):
        self.slots[op["slot"]] = None
        rec["outcome"] = "ok"

    def op_forget(self, cl, op, rec):
        h = cl.regs.pop(op["reg"], None)
        if h is not None:
            h.outputs = None
            h.leaves = None
        rec["outcome"] = "ok"

    def op_set_default_dtype(self, cl, op, rec):
        self.L.torch.set_default_dtype(DT[op["dtype"]])
        self.intended_default = op["dtype"]
        rec["outcome"] = "ok"

    def op_call(self, cl, op, rec):
        torch = self.L.torch
        inst = self.slots.get(op["slot"])
        if inst is None:
            return self._skip(rec, "empty-slot")
        if inst.family not in catalog.INPUT_RANK:
            return self._skip(rec, "not-forward")
        spec = op["arg"]
        rec["call_default"] = self.intended_default
        base, x = make_tensor(spec)
        leaf = x
        want_rg = bool(op.get("requires_grad")) and (x.is_floating_point() or x.is_complex())
        if want_rg:
            x.requires_grad_(True)
            if op.get("nonleaf"):
                x = leaf * 1.0        # the module sees a non-leaf tensor of an existing graph
        before = storage_bytes(base)
        shape0 = tuple(x.shape)
        rec["family"] = inst.family
        rec["recipe"] = inst.recipe
        rec["iid"] = inst.iid
        rec["mod_dtype"] = DTNAME.get(catalog.module_dtype(inst.mod))
        if self.profile == "C16":
            rec["state"] = tensor_state(inst.mod)
        if inst.inflight > 0:
            self.stats["calls_on_shared_instance"] += 1
        mod = inst.mod
        inst.inflight += 1
        # torch promotes an INTEGER input by the default dtype in force: for such
        # a call the user's set_default_dtype() in another thread would be a race
        # in the user's own program, like flipping it under a constructor
        int_in = not (x.is_floating_point() or x.is_complex())
        if int_in:
            self.dtype_sensitive += 1
        try:
            status, val = cl.guarded(
                lambda: call_with_mode(torch, lambda: mod(x), op.get("grad_mode", "ambient")))
        finally:
            inst.inflight -= 1
            if int_in:
                self.dtype_sensitive -= 1
        self._finish(cl, rec, status, val)
        # I1: arguments untouched (also after a faulted call)
        if storage_bytes(base) != before:
            self.violation("I1-arg-mutated", rec, "input tensor storage changed by the call")
        elif bool(x.requires_grad) != want_rg or leaf.grad is not None \
                or tuple(x.shape) != shape0:
            self.violation("I1-arg-mutated", rec, "input tensor metadata (requires_grad / .grad / "
                           "shape) changed by the call")
        self.live_args.append((rec, [(base, before)], None))
        if status == "ok":
            rec["out_snap"] = snap(val)
            rec["out_digest"] = snap_digest(rec["out_snap"])
            h = Handle(rec, val, [leaf] if leaf.requires_grad else [], inst.family, "fwd", [base], [inst])
            cl.regs[op["out"]] = h
            self.handles.append(h)
        else:
            cl.regs.pop(op["out"], None)

    def op_inverse(self, cl, op, rec):
        torch = self.L.torch
        inst = self.slots.get(op["slot"])
        if inst is None:
            return self._skip(rec, "empty-slot")
        if inst.family not in catalog.FWD_OF:
            return self._skip(rec, "not-inverse")
        h = cl.regs.get(op["src"])
        if h is None or h.outputs is None or h.kind != "fwd" \
                or h.family != catalog.FWD_OF[inst.family]:
            return self._skip(rec, "no-source")
        built = build_pyramid(torch, h.family, h.outputs, op)
        if built is None:
            return self._skip(rec, "unusable-source")
        low, highs, leaves = built
        rec["pyr"] = freeze_pyramid(low, highs)
        rec["family"] = inst.family
        rec["recipe"] = inst.recipe
        rec["iid"] = inst.iid
        rec["mod_dtype"] = DTNAME.get(catalog.module_dtype(inst.mod))
        if self.profile == "C16":
            rec["state"] = tensor_state(inst.mod)
        tens = [t for t in [low] + list(highs) if isinstance(t, torch.Tensor)]
        before = [(t, raw_bytes(t)) for t in tens]
        ident = (highs, len(highs), [id(e) for e in highs], list(highs))
        mod = inst.mod
        if inst.inflight > 0:
            self.stats["calls_on_shared_instance"] += 1
        inst.inflight += 1
        try:
            status, val = cl.guarded(
                lambda: call_with_mode(torch, lambda: mod((low, highs)),
                                       op.get("grad_mode", "ambient")))
        finally:
            inst.inflight -= 1
        self._finish(cl, rec, status, val)
        msg = check_args_untouched(before, ident)
        if msg:
            self.violation("I1-arg-mutated", rec, msg)
        self.live_args.append((rec, before, ident))
        if status == "ok":
            rec["out_snap"] = snap(val)
            rec["out_digest"] = snap_digest(rec["out_snap"])
            hh = Handle(rec, val, leaves, inst.family, "inv", tens, [inst])
            cl.regs[op["out"]] = hh
            self.handles.append(hh)
        else:
            cl.regs.pop(op["out"], None)

    def op_roundtrip(self, cl, op, rec):
        """forward then inverse in one autograd graph (x -> pyramid -> x')."""
        torch = self.L.torch
        fi = self.slots.get(op["slot"])
        ii = self.slots.get(op["slot2"])
        if fi is None or ii is None:
            return self._skip(rec, "empty-slot")
        if catalog.INV_OF.get(fi.family) != ii.family:
            return self._skip(rec, "not-a-pair")
        base, x = make_tensor(op["arg"])
        if op.get("requires_grad"):
            x.requires_grad_(True)
        before = storage_bytes(base)
        rec["family"] = fi.family
        rec["recipe"] = fi.recipe
        rec["recipe2"] = ii.recipe
        rec["iid"] = fi.iid
        rec["iid2"] = ii.iid
        rec["mod_dtype"] = DTNAME.get(catalog.module_dtype(fi.mod))
        rec["mod_dtype2"] = DTNAME.get(catalog.module_dtype(ii.mod))
        fm, im = fi.mod, ii.mod
        if fi.inflight > 0 or ii.inflight > 0:
            self.stats["calls_on_shared_instance"] += 1
        fi.inflight += 1
        ii.inflight += 1
        try:
            status, val = cl.guarded(lambda: call_with_mode(
                torch, lambda: roundtrip(fm, im, x), op.get("grad_mode", "ambient")))
        finally:
            fi.inflight -= 1
            ii.inflight -= 1
        self._finish(cl, rec, status, val)
        if storage_bytes(base) != before:
            self.violation("I1-arg-mutated", rec, "input tensor storage changed by the call")
        self.live_args.append((rec, [(base, before)], None))
        if status == "ok":
            rec["out_snap"] = snap(val)
            rec["out_digest"] = snap_digest(rec["out_snap"])
            h = Handle(rec, val, [x] if x.requires_grad else [], fi.family, "rt", [base], [fi, ii])
            cl.regs[op["out"]] = h
            self.handles.append(h)
        else:
            cl.regs.pop(op["out"], None)

    def op_backward(self, cl, op, rec):
        torch = self.L.torch
        h = cl.regs.get(op["handle"])
        if h is None or h.outputs is None:
            return self._skip(rec, "no-handle")
        if h.dirty or not h.graph_alive:
            return self._skip(rec, "graph-unusable")
        sel = select_backward(torch, h.outputs, h.leaves, op)
        if sel is None:
            return self._skip(rec, "nothing-differentiable")
        outs, cots, inputs = sel
        rec["fwd_rec"] = h.rec
        retain = bool(op.get("retain")) or bool(rec["armed"]) or rec["retry"]
        rec["retain"] = retain
        # a backward in flight pins its modules like a forward does (a
        # conversion rewrites Parameter.data under a running backward otherwise)
        for inst in h.insts:
            inst.inflight += 1
        cot_before = [raw_bytes(c) for c in cots]
        try:
            cg = bool(op.get("create_graph"))
            status, val = cl.guarded(
                lambda: torch.autograd.grad(outs, inputs, cots, retain_graph=retain or cg,
                                            create_graph=cg, allow_unused=True))
        finally:
            for inst in h.insts:
                inst.inflight -= 1
        if not retain:
            h.graph_alive = False
        self._finish(cl, rec, status, val)
        # I1: the gradients handed to backward are the caller's tensors too
        if any(raw_bytes(c) != b for c, b in zip(cots, cot_before)):
            self.violation("I1-arg-mutated", rec, "backward changed a gradient tensor it was given")
        self.live_args.append((rec, list(zip(cots, cot_before)), "values"))
        if status == "ok":
            rec["out_snap"] = snap(list(val))
            rec["out_digest"] = snap_digest(rec["out_snap"])

    def op_mutate_output(self, cl, op, rec):
        torch = self.L.torch
        h = cl.regs.get(op["reg"])
        if h is None or h.outputs is None:
            return self._skip(rec, "no-handle")
        # outputs that legitimately alias the call's own inputs (J=0, empty
        # pyramid) are the caller's input tensors: not scribbled on
        ts = [t for t in flat_tensors(h.outputs) if t.numel() > 0
              and t.untyped_storage().data_ptr() not in h.arg_ptrs]
        if not ts:
            return self._skip(rec, "no-tensor")
        t = ts[op["index"] % len(ts)]
        h.dirty = True

        def scribble():
            d = t.detach()
            flat = d.reshape(-1) if d.is_contiguous() else None
            if flat is not None and flat.data_ptr() == d.data_ptr():
                flat[op["index"] % flat.numel()] += 1.0
                flat.mul_(-1.0)
            else:
                d.add_(1.0)
        if t.is_inference():
            with torch.inference_mode():
                scribble()
        else:
            with torch.no_grad():
                scribble()
        rec["outcome"] = "ok"

    def op_load(self, cl, op, rec):
        coeffs = self.L.coeffs
        nm = name_form(op["name"], op.get("form", "plain"))
        fn = {"biort": lambda: coeffs.biort(nm),
              "level1": lambda: coeffs.level1(nm),
              "level1c": lambda: coeffs.level1(nm, compact=True),
              "qshift": lambda: coeffs.qshift(nm)}[op["loader"]]
        status, val = cl.guarded(fn)
        self._finish(cl, rec, status, val)
        if status == "ok":
            rec["out_snap"] = snap(val)
            rec["out_digest"] = snap_digest(rec["out_snap"])
            rec["value"] = val
        if self.profile == "C18":
            tables.check_load(self, cl, rec, op, status, val)

    def op_extra(self, cl, op, rec):
        """Call a public function of the loader module that is NOT one of the
        known entry points (a change under test may add some) with a table name
        and its boolean keyword defaults flipped per op["flip"].  The outcome is
        not judged; what it does to later loads is (T1/T3/T5)."""
        import inspect
        coeffs = self.L.coeffs
        known = {"biort", "level1", "qshift", "pywt_coeffs", "load", "resource_stream"}
        # new public functions, and known loaders that grew new parameters
        base_sig = {"biort": ["name"], "level1": ["name", "compact"], "qshift": ["name"]}
        cands = []
        for n, f in sorted(vars(coeffs).items()):
            if not inspect.isfunction(f) or f.__module__ != coeffs.__name__ or n.startswith("_"):
                continue
            try:
                params = list(inspect.signature(f).parameters.values())
            except (TypeError, ValueError):
                continue
            if n in base_sig:
                new = [q for q in params if q.name not in base_sig[n]]
                if new:
                    cands.append((n, new))
            elif n not in known:
                cands.append((n, params[1:]))
        if not cands:
            return self._skip(rec, "no-extra-api")
        fname, params = cands[op["index"] % len(cands)]
        fn = getattr(coeffs, fname)
        kwargs = {}
        bit = 0
        for prm in params:
            if prm.kind not in (prm.POSITIONAL_OR_KEYWORD, prm.KEYWORD_ONLY):
                continue
            on = (op["flip"] >> (bit % 3)) & 1
            bit += 1
            if isinstance(prm.default, bool):
                if on:
                    kwargs[prm.name] = not prm.default
            elif "dtype" in prm.name.lower():
                if on or fname in base_sig:
                    kwargs[prm.name] = "float32"
            elif prm.default is None or prm.default is inspect.Parameter.empty:
                if on:
                    kwargs[prm.name] = [True, "float32", 1][op["flip"] % 3]
            elif isinstance(prm.default, (int, float)):
                if on:
                    kwargs[prm.name] = prm.default + 1
        status, val = cl.guarded(lambda: fn(op["name"], **kwargs))
        self._finish(cl, rec, status, val)
        self.probe("extra_api_calls")
        rec["unjudged"] = True

    def op_newapi(self, cl, op, rec):
        """Call a public function that exists in some library module now but
        not on the pinned tree (wavesim/api_baseline.json) - e.g. a new
        `clear_cache()` / `set_precision()` / `register_wavelet()` helper - with
        arguments guessed from parameter names.  Its outcome is not judged; what
        it does to every later call is, by the usual oracles."""
        import inspect
        import json as _json
        import os as _os
        global _API_BASE
        if _API_BASE is None:
            with open(_os.path.join(_os.path.dirname(__file__), "api_baseline.json")) as f:
                _API_BASE = _json.load(f)
        cands = []
        for mname in sorted(sys.modules):
            m = sys.modules[mname]
            if not mname.startswith("pytorch_wavelets") or m is None or mname.endswith(".coeffs"):
                continue
            known = set(_API_BASE.get(mname, ()))
            for n, f in sorted(vars(m).items()):
                if n.startswith("_") or n in known or not inspect.isfunction(f) \
                        or getattr(f, "__module__", None) != mname:
                    continue
                cands.append((mname, n, f))
        if not cands:
            return self._skip(rec, "no-new-api")
        mname, n, fn = cands[op["index"] % len(cands)]
        args, kwargs = [], {}
        try:
            params = list(inspect.signature(fn).parameters.values())
        except (TypeError, ValueError):
            params = []
        pick = op["flip"]
        for i, prm in enumerate(params):
            if prm.kind not in (prm.POSITIONAL_OR_KEYWORD, prm.KEYWORD_ONLY):
                continue
            nm = prm.name.lower()
            required = prm.default is inspect.Parameter.empty
            on = (pick >> (i % 4)) & 1
            if not required and not on:
                continue
            if "dtype" in nm or "precision" in nm:
                v = ["float32", "float64"][pick % 2]
            elif any(k in nm for k in ("name", "wave", "biort", "qshift", "table")):
                v = ["near_sym_a", "qshift_a", "db2"][pick % 3]
            elif isinstance(prm.default, bool):
                v = not prm.default
            elif isinstance(prm.default, (int, float)) and not isinstance(prm.default, bool):
                v = prm.default + 1
            else:
                v = [True, 1, "float32", None][pick % 4]
            if required:
                args.append(v)
            else:
                kwargs[prm.name] = v
        self.dtype_sensitive += 1
        try:
            status, val = cl.guarded(lambda: fn(*args, **kwargs))
        finally:
            self.dtype_sensitive -= 1
        self._finish(cl, rec, status, val)
        self.probe("new_api_calls")
        rec["unjudged"] = True

    def op_func(self, cl, op, rec):
        torch = self.L.torch
        rec["default_dtype"] = self.intended_default
        args = func_args(self.L, op)
        bases = [(b, storage_bytes(b)) for b in args["bases"]]
        self.dtype_sensitive += 1
        try:
            status, val = cl.guarded(
                lambda: call_with_mode(torch, lambda: run_func(self.L, op, args),
                                       op.get("grad_mode", "ambient")))
        finally:
            self.dtype_sensitive -= 1
        self._finish(cl, rec, status, val)
        for b, before in bases:
            if storage_bytes(b) != before:
                self.violation("I1-arg-mutated", rec, "functional call changed an input tensor")
        if args["lo"].tobytes() != args["lo0"] or args["hi"].tobytes() != args["hi0"]:
            self.violation("I1-arg-mutated", rec, "functional call changed a filter array it was given")
        for arr, before in args.get("given", ()):
            if arr.tobytes() != before:
                self.violation("I1-arg-mutated", rec,
                               "a filter helper changed an array it was given (the loader's own array)")
                break
        self.live_args.append((rec, bases, None))
        if status == "ok":
            rec["out_snap"] = snap(val)
            rec["out_digest"] = snap_digest(rec["out_snap"])
            h = Handle(rec, val, [], "func", "func")
            self.handles.append(h)

    # ---- end of run -----------------------------------------------------------
    def end_of_run_checks(self):
        # I1 again at end of run; I4 returned values stable
        for rec, tens, ident in self.live_args:
            for t, before in tens:
                now = storage_bytes(t) if ident is None else raw_bytes(t)
                if now != before:
                    self.violation("I1-arg-mutated-late", rec,
                                   "an argument changed between return and end of run")
                    break
        for h in self.handles:
            if h.dirty or h.outputs is None or h.out_snap is None:
                continue
            now = snap(h.outputs)
            if snap_digest(now) != snap_digest(h.out_snap):
                self.violation("I4-output-unstable", h.rec,
                               "a returned value changed after return although its owner "
                               "never touched it")


def roundtrip(fm, im, x):
    y = fm(x)
    yl, yh = y
    if isinstance(yl, (list, tuple)):
        yl = yl[-1]
    return im((yl, yh)), y


class _StrSub(str):
    pass


def name_form(name, form):
    """The same table name in another argument form."""
    if form == "npstr":
        return np.str_(name)
    if form == "strsub":
        return _StrSub(name)
    if form == "upper":
        return name.upper()
    if form == "padded":
        return " " + name + " "
    if form == "suffixed":
        return name + ".npz"
    if form in ("userpath", "userpath_npz", "userpathlib"):
        # the user's OWN file, same stem as a shipped table, other numbers
        import os
        import pathlib
        d = os.path.join(env.SCRATCH or ".", "userfilters")
        os.makedirs(d, exist_ok=True)
        ref = tables.reference_tables().get(name)
        path = os.path.join(d, name + ".npz")
        if ref is not None and not os.path.exists(path):
            np.savez(path, **{k: v * 1.001 for k, v in ref.items()})
        if form == "userpath":
            return os.path.join(d, name)
        if form == "userpath_npz":
            return path
        return pathlib.Path(path)
    return name


def check_args_untouched(before, ident):
    for t, b in before:
        if raw_bytes(t) != b:
            return "a coefficient tensor passed to the call was modified"
    if ident is not None:
        lst, n, ids, elems = ident
        if len(lst) != n:
            return "the coefficient list passed to the call changed length"
        for e, i in zip(lst, ids):
            if id(e) != i:
                return "an entry of the coefficient list passed to the call was replaced"
    return None


def load_other(mod, step, other=None):
    if other is None:
        other = catalog.build(step[1], step[2])
    mine = mod.state_dict()
    theirs = other.state_dict()
    # load_state_dict copies the matching tensors before it reports a mismatch:
    # never start a load that cannot complete
    if set(mine) != set(theirs) or any(mine[k].shape != theirs[k].shape for k in mine):
        raise ValueError("checkpoint of another configuration does not fit")
    sd = {k: v.detach().clone().to(mine[k].dtype) for k, v in theirs.items()}
    mod.load_state_dict(sd)
    return mod


def do_restart(L, mod, recipe, step):
    how = step[1]
    torch = L.torch
    if how == "deepcopy":
        return copy.deepcopy(mod)
    if how == "pickle":
        buf = io.BytesIO()
        pickle.dump(mod, buf)
        buf.seek(0)
        return pickle.load(buf)
    if how == "state_dict":
        # what a user restoring a checkpoint does: construct the same way,
        # convert the same way, load the saved tensors
        first = recipe[0]
        new = catalog.build(first[1], first[2])
        for st in recipe[1:]:
            if st[0] == "convert":
                new = apply_convert(new, st[1], torch)
        sd = {k: v.clone() for k, v in mod.state_dict().items()}
        new.load_state_dict(sd)
        return new
    raise ValueError(how)


def permuted_view(t, dims):
    """Same shape and values as t; memory laid out with two dimensions swapped."""
    i, j = dims[0] % t.dim(), dims[1] % t.dim()
    if i == j:
        i, j = t.dim() - 1, t.dim() - 2
    return t.transpose(i, j).contiguous().transpose(i, j)


def freeze_pyramid(low, highs):
    def fz(t):
        if t is None:
            return None
        return (t.detach().clone(), bool(t.requires_grad))
    return (fz(low), [fz(h) for h in highs], isinstance(highs, tuple), not low.is_contiguous(),
            [bool(h is not None and h.dim() >= 2 and not h.is_contiguous()) for h in highs])


def thaw_pyramid(fr, contiguous=False):
    def th(f):
        if f is None:
            return None
        t = f[0].detach().clone()
        if f[1]:
            t.requires_grad_(True)
        return t
    low = th(fr[0])
    highs = [th(f) for f in fr[1]]
    # .clone() keeps the strides of dense permuted tensors, so the thawed copies
    # have the memory layout the simulated call saw
    if contiguous:
        low = low.contiguous() if not low.requires_grad else low
        highs = [h.contiguous() if (h is not None and not h.requires_grad) else h for h in highs]
    if len(fr) > 2 and fr[2]:
        highs = tuple(highs)
    leaves = [t for t in [low] + list(highs) if t is not None and t.requires_grad]
    return low, highs, leaves


def build_pyramid(torch, fwd_family, outputs, op):
    """Arguments for an inverse call, derived from a forward output this
    client holds: detached clones (optionally perturbed, so the pyramid is
    arbitrary rather than in the range of the forward transform), with levels
    replaced by None / 0-dim placeholders per op["mask"]."""
    if not isinstance(outputs, tuple) or len(outputs) != 2:
        return None
    yl, yh = outputs
    if yh is None:
        return None
    if isinstance(yl, (list, tuple)):
        if not yl:
            return None
        yl = yl[-1]
    if not isinstance(yl, torch.Tensor):
        return None
    rng = np.random.Generator(np.random.PCG64(op["seed"]))
    pert = op.get("perturb", 0.0)

    def cl(t, rg):
        c = t.detach().clone()
        if pert and c.numel() > 0 and c.dim() > 0:
            c = c + pert * torch.from_numpy(
                rng.standard_normal(tuple(c.shape))).to(c.dtype)
        if op.get("cast"):
            c = c.to(DT[op["cast"]])
        if rg and c.dim() > 0:
            c.requires_grad_(True)
        return c
    low = cl(yl, op.get("rg_low", False))
    mask = op.get("mask") or ["keep"]
    highs = []
    for j, h in enumerate(yh):
        m = mask[j % len(mask)]
        if m == "none" or h is None:
            highs.append(None)
        elif m == "zerodim" and fwd_family == "dtf":
            highs.append(low.new_zeros([]))
        else:
            highs.append(cl(h, op.get("rg_high", False)))
    vd = op.get("view_dims") or [-1, -2]
    if op.get("low_view") and low.dim() >= 2 and not low.requires_grad:
        # same values, non-contiguous memory (two dimensions swapped in memory)
        low = permuted_view(low, vd)
    if op.get("high_view"):
        highs = [permuted_view(h, vd)
                 if (h is not None and h.dim() >= 2 and not h.requires_grad) else h
                 for h in highs]
    if op.get("as_tuple"):
        highs = tuple(highs)
    leaves = [t for t in [low] + list(highs) if t is not None and t.requires_grad]
    return low, highs, leaves


def _cotangent(torch, rng, t, layout):
    """Gradient handed to backward for output t.  `bcast` is what
    `t.sum().backward()` passes (a scalar broadcast with stride 0); the others
    are the memory layouts inputs are drawn in (transposed, strided, offset,
    channels_last - what a channels_last network hands back -, expanded batch,
    slices of a larger buffer)."""
    shape = tuple(t.shape)
    if layout in ("expand_scalar", "bcast"):
        return torch.from_numpy(rng.standard_normal(())).to(t.dtype).expand(shape)
    if layout != "contig" and DTNAME.get(t.dtype) in ("float32", "float64") and len(shape) >= 1:
        spec = {"shape": list(shape), "dtype": DTNAME[t.dtype], "layout": layout,
                "seed": int(rng.integers(1 << 30)), "scale": 1.0}
        try:
            v = make_tensor(spec)[1]
            if tuple(v.shape) == shape:
                return v
        except Exception:  # noqa - a layout that does not exist for this rank
            pass
    return torch.from_numpy(rng.standard_normal(shape)).to(t.dtype)


def select_backward(torch, outputs, leaves, op, contiguous=False):
    outs = []
    for t in flat_tensors(outputs):
        try:
            if t.requires_grad and t.grad_fn is not None and t.dim() > 0:
                outs.append(t)
        except RuntimeError:    # view whose base was modified behind our back
            continue
    # de-duplicate shared placeholder objects
    seen = set()
    uo = []
    for t in outs:
        if id(t) not in seen:
            seen.add(id(t))
            uo.append(t)
    outs = uo
    if not outs or not leaves:
        return None
    om = op.get("out_mask", 0)
    if om:
        sub = [t for i, t in enumerate(outs) if (om >> (i % 8)) & 1]
        if sub:
            outs = sub
    lm = op.get("leaf_mask", 0)
    inputs = list(leaves)
    if lm:
        sub = [t for i, t in enumerate(inputs) if (lm >> (i % 8)) & 1]
        if sub:
            inputs = sub
    rng = np.random.Generator(np.random.PCG64(op["seed"]))
    lay = op.get("cot_layout", "contig")
    cots = [_cotangent(torch, rng, t, lay) for t in outs]
    if contiguous:
        cots = [c.contiguous() for c in cots]
    return outs, cots, inputs


# ---- functional API ---------------------------------------------------------

FUNCS = ["afb2d", "sfb2d", "afb2d_nonsep", "sfb2d_nonsep", "afb2d_atrous", "afb1d", "sfb1d",
         "cplxdual2D", "prepfn"]

_FILT_PARAM = __import__("re").compile(r"^(h|g)\d?[a-z]?(_(col|row))?$|^(h|g)$|filt")
_PREPFNS = {}


def filter_functions(L):
    """Public module-level functions of the library all of whose required
    parameters are named like filters (the prep_filt_* helpers and whatever a
    change under test adds next to them): callable with the arrays a table
    loader returns.  Sorted (module, name) list, cached per library code."""
    import inspect
    key = id(L.pw)
    if key in _PREPFNS:
        return _PREPFNS[key]
    out = []
    for mn in sorted(sys.modules):
        if not mn.startswith("pytorch_wavelets") or mn.endswith(".coeffs"):
            continue
        m = sys.modules[mn]
        for n, f in sorted(vars(m).items()):
            if n.startswith("_") or not inspect.isfunction(f) or getattr(f, "__module__", None) != mn:
                continue
            try:
                ps = list(inspect.signature(f).parameters.values())
            except (TypeError, ValueError):
                continue
            req = [q.name for q in ps if q.default is q.empty
                   and q.kind in (q.POSITIONAL_OR_KEYWORD, q.POSITIONAL_ONLY)]
            if req and len(req) == len([q for q in ps if q.default is q.empty]) \
                    and all(_FILT_PARAM.search(r) for r in req):
                out.append((mn, n, req))
    _PREPFNS[key] = out
    return out


def run_prepfn(L, op, a):
    """A filter-preparing helper called with the arrays of a shipped table
    exactly as the loader returned them (no copies: what a user does)."""
    fns = filter_functions(L)
    mn, n, req = fns[op["pick"] % len(fns)]
    fn = getattr(sys.modules[mn], n)
    ld = op["loader"]
    call = {"biort": lambda c, x: c.biort(x), "level1": lambda c, x: c.level1(x),
            "level1c": lambda c, x: c.level1(x, compact=True), "qshift": lambda c, x: c.qshift(x)}[ld]
    arrs = call(L.coeffs, op["name"])
    keys = tables.loader_keys(ld, op["name"])
    by = dict(zip(keys, arrs)) if keys and len(keys) == len(arrs) else {}
    args = []
    for i, r in enumerate(req):
        base = r.split("_")[0]
        cands = [base]
        if len(base) == 3 and base[2] in "cd":
            cands.append(base[:2] + ("a" if base[2] == "c" else "b"))
        cands += [base[:2] + "o", base[:2] + "a"]
        arr = next((by[c] for c in cands if c in by), None)
        if arr is None:
            arr = arrs[i % len(arrs)]
        args.append(arr)
    a["given"] = [(x, x.tobytes()) for x in args if isinstance(x, np.ndarray)]
    return fn(*args)


def func_args(L, op):
    """Build the (harness-owned) tensor arguments of a functional call."""
    import pywt
    torch = L.torch
    fn = op["fn"]
    if fn == "prepfn":
        return {"bases": [], "tens": [], "lo": np.zeros(0), "hi": np.zeros(0),
                "lo0": b"", "hi0": b""}
    wv = pywt.Wavelet(op["wave"])
    bases = []
    tens = []
    for spec in op["args"]:
        b, v = make_tensor(spec)
        if op.get("requires_grad"):
            v.requires_grad_(True)
        bases.append(b)
        tens.append(v)
    if op.get("alias_args") and len(tens) >= 2:
        tens[-1] = tens[-2]          # the same tensor object passed for two arguments
    synth = fn.startswith("sfb")
    lo, hi = (wv.rec_lo, wv.rec_hi) if synth else (wv.dec_lo, wv.dec_hi)
    lo, hi = np.array(lo), np.array(hi)
    return {"bases": bases, "tens": tens, "lo": lo, "hi": hi, "lo0": lo.tobytes(), "hi0": hi.tobytes()}


def run_func(L, op, a):
    ll = L.dwt_ll
    fn = op["fn"]
    mode = op["mode"]
    lo, hi = a["lo"], a["hi"]
    t = a["tens"]
    prep = op.get("prep", False)
    if fn == "prepfn":
        return run_prepfn(L, op, a)
    if fn == "afb2d":
        filts = ll.prep_filt_afb2d(lo, hi) if prep else (lo, hi)
        return ll.afb2d(t[0], filts, mode)
    if fn == "sfb2d":
        filts = ll.prep_filt_sfb2d(lo, hi) if prep else (lo, hi)
        return ll.sfb2d(t[0], t[1], t[2], t[3], filts, mode)
    if fn == "afb2d_nonsep":
        filts = ll.prep_filt_afb2d_nonsep(lo, hi) if prep else (lo, hi)
        return ll.afb2d_nonsep(t[0], filts, mode)
    if fn == "sfb2d_nonsep":
        filts = ll.prep_filt_sfb2d_nonsep(lo, hi) if prep else (lo, hi)
        return ll.sfb2d_nonsep(t[0], filts, mode)
    if fn == "afb2d_atrous":
        filts = ll.prep_filt_afb2d(lo, hi) if prep else (lo, hi)
        return ll.afb2d_atrous(t[0], filts, mode, op.get("dilation", 1))
    if fn == "cplxdual2D":
        return L.ll2.cplxdual2D(t[0], op.get("J", 2), level1=op.get("level1", "farras"),
                                qshift=op.get("qshift", "qshift_a"), mode=mode)
    if fn == "afb1d":
        return ll.afb1d(t[0], lo, hi, mode, op.get("dim", -1))
    if fn == "sfb1d":
        return ll.sfb1d(t[0], t[1], lo, hi, mode, op.get("dim", -1))
    raise ValueError(fn)


# ---- running a plan -----------------------------------------------------------

def make_chooser(plan, n):
    sch = plan.get("schedule")
    if sch is not None:
        return Explicit(sch)
    kn = plan["knobs"]
    rng = random.Random("sched:%s" % plan["seed"])
    pol = kn.get("policy", "random_walk")
    if pol == "pct":
        return PCT(rng, n, kn.get("pct_depth", 2), kn.get("horizon", 2000))
    if pol == "boundary":
        return BoundaryOnly(rng, kn.get("switch_prob", 0.5))
    return RandomWalk(rng, kn.get("switch_prob", 0.1))


def run_plan(plan, reference=True, watchdog=40.0):
    from . import reference as refmod
    want_shift = int(plan.get("knobs", {}).get("const_shift", 0))
    seams.KNOB_SHIFT = seams.effective_shift(want_shift)
    L = seams.fresh_library(patch_stream=True)
    torch = L.torch
    torch.set_default_dtype(torch.float32)
    torch.set_grad_enabled(True)
    np_err = np.geterr()
    w = World(plan)
    if want_shift and not seams.KNOB_SHIFT:
        w.probe("knob_shift_vetoed")
    w.L = L
    programs = plan["programs"]
    n = len(programs)
    w.sched = Scheduler(n, make_chooser(plan, n), w.log)
    clients = [Client(w, i, programs[i]) for i in range(n)]
    w.clients = clients
    threads = [threading.Thread(target=c.main, name="sim-client-%d" % i, daemon=True)
               for i, c in enumerate(clients)]
    gc.collect()
    gc.disable()
    deadlocked = False
    try:
        try:
            w.sched.run(threads, watchdog)
        except Deadlock as e:
            if not any(c.waiting_lock for c in clients):
                raise
            # every client waits for a lock the library took and never gave
            # back (or a lock cycle): calls that never return
            deadlocked = True
            w.violation("I8-deadlock", None, "clients wait forever on library locks: %s" % e)
        if w.harness_error:
            raise env.HarnessError(w.harness_error)
        if not deadlocked:
            w.end_of_run_checks()
        if w.profile == "C18" and not deadlocked:
            tables.final_loads(w)
        if np.geterr() != np_err:
            w.probe("np_seterr_leak")
            np.seterr(**np_err)
        if reference and not deadlocked:
            refmod.check_history(w)
    finally:
        gc.enable()
        torch.set_default_dtype(torch.float32)
        torch.set_grad_enabled(True)
    fp = hashlib.sha256(repr(w.events).encode()).hexdigest()
    inter = hashlib.sha256(repr(w.interleave).encode()).hexdigest()[:16]
    swtrace = hashlib.sha256(repr([e for e in w.events if e[0] == "sw"]).encode()).hexdigest()[:16]
    kinds = {}
    outcomes = {}
    for r in w.records:
        kinds[r["kind"]] = kinds.get(r["kind"], 0) + 1
        oc = r["outcome"].split(":")[0]
        if r.get("faulted"):
            oc = "faulted-" + oc
        outcomes[oc] = outcomes.get(oc, 0) + 1
    res = {
        "seed": plan.get("seed"),
        "violations": w.violations,
        "fingerprint": fp,
        "interleaving": inter,
        "switch_trace": swtrace,
        "schedule": w.sched.switches,
        "stats": dict(w.stats, steps=w.sched.step, switches=w.sched.n_switch,
                      switches_in_lib=w.sched.n_switch_in_lib,
                      records=len(w.records)),
        "faults_fired": w.fault_counts,
        "fault_sites": sorted("%s:%s" % s for s in w.fault_sites),
        "sites": sorted("%s:%s" % s for s in w.sites),
        "op_kinds": kinds,
        "outcomes": outcomes,
        "probes": w.probes,
        "ref": getattr(w, "ref_stats", {}),
    }
    # break reference cycles promptly
    for c in clients:
        c.regs.clear()
    w.handles = []
    w.live_args = []
    return res
