"""check / worker / replay / selftest entry points (called from run.py after
the environment has been pinned)."""
import hashlib
import json
import os
import subprocess
import sys
import time

from . import env

OUT = os.path.join(env.VERIF, "out")
EVID = os.path.join(env.VERIF, "evidence")
if env.REPO != "/repo":
    # sensitivity experiments against a scratch copy never touch the real
    # evidence or replay directories
    OUT = os.path.join(env.VERIF, "out", "scratch-" + os.path.basename(env.REPO))
    EVID = os.path.join(OUT, "evidence")
KNOWN = os.environ.get("WAVESIM_KNOWN") or os.path.join(env.VERIF, "known_findings.txt")

TIERS = {
    # runs per check, shrink budget per violation (s), wall cap for the batch (s)
    "quick": {"C15": 2400, "C16": 1600, "C18": 960, "shrink_s": 60, "cap_s": 420},
    "thorough": {"C15": 48000, "C16": 32000, "C18": 40000, "shrink_s": 240, "cap_s": 3000},
}

COMPONENTS = {
    "real": ["pytorch_wavelets (every module, from /repo's working tree)",
             "torch CPU kernels + autograd engine", "numpy.load / zipfile",
             "pywt", "pkg_resources resource lookup", "OS threads as clients"],
    "stub": ["byte stream behind coeffs.resource_stream (FaultyStream serving the real "
             "file's bytes)", "which client thread runs next (seeded scheduler)",
             "allocation failures / cancellation (exceptions raised from the line tracer at "
             "statement boundaries, and from the c_call profile event inside torch/numpy calls)",
             "threading / concurrent.futures / queue / time as the library sees them "
             "(cooperative stand-ins; the pinned tree uses none of them)"],
}


def library_line_sites():
    """Number of distinct (file, line) sites in the code objects of the
    library modules the simulator loads (denominator of site coverage)."""
    import sys as _sys
    env.lib()
    n = 0
    for name, m in sorted(_sys.modules.items()):
        f = getattr(m, "__file__", None) if m is not None else None
        if not name.startswith("pytorch_wavelets") or not f or not f.endswith(".py"):
            continue
        with open(f, "rb") as fh:
            co = compile(fh.read(), f, "exec", dont_inherit=True)
        lines = set()
        stack = [co]
        while stack:
            c = stack.pop()
            if c.co_name != "<module>":
                lines.update(ln for _, _, ln in c.co_lines() if ln)
            stack.extend(k for k in c.co_consts if hasattr(k, "co_lines"))
        n += len(lines)
    return n


def jobs_default():
    try:
        n = len(os.sched_getaffinity(0))
    except Exception:
        n = os.cpu_count() or 4
    return max(1, min(16, n))


# ---------------------------------------------------------------- worker

def worker(argv):
    """worker PROFILE BASE START STRIDE COUNT DEADLINE OUTFILE TIER"""
    import faulthandler
    from . import gen, world
    prof, base, start, stride, count, deadline, outfile, tier = argv
    base, start, stride, count = int(base), int(start), int(stride), int(count)
    deadline = float(deadline)
    agg = new_agg()
    t0 = time.time()
    done = 0
    for i in range(count):
        if time.time() > deadline:
            agg["stopped_early"] = True
            break
        seed = base + start + i * stride
        faulthandler.dump_traceback_later(300, exit=True)
        plan = gen.gen_plan(prof, seed, tier)
        try:
            res = world.run_plan(plan)
        except Exception as e:  # harness failure: reported, never a verdict
            import traceback
            agg["harness_errors"].append({"seed": seed, "error": "%s: %s" % (type(e).__name__, e),
                                          "trace": traceback.format_exc()[-1500:]})
            continue
        finally:
            faulthandler.cancel_dump_traceback_later()
        done += 1
        merge_run(agg, plan, res)
    agg["wall_s"] = time.time() - t0
    agg["runs"] = done
    for k in ("sites", "fault_sites", "plan_digests", "interleavings", "switch_traces"):
        agg[k] = sorted(agg[k])
    with open(outfile, "w") as f:
        json.dump(agg, f)
    return 0


def worker_sweep(argv):
    """worker_sweep TIER START STRIDE DEADLINE OUTFILE"""
    import faulthandler
    from . import gen, world
    tier, start, stride, deadline, outfile = argv
    start, stride, deadline = int(start), int(stride), float(deadline)
    plans = gen.sweep_plans(tier)
    import gc
    gc.collect()
    gc.freeze()      # ~10^6 plan objects must not be walked by every run's gc.collect()
    res = {"total": len(plans), "done": 0, "by_kind": {}, "outcome": {}, "violations": [],
           "harness_errors": [], "fired": 0, "stopped_early": False, "samples": []}
    for i in range(start, len(plans), stride):
        if time.time() > deadline:
            res["stopped_early"] = True
            break
        plan = plans[i]
        faulthandler.dump_traceback_later(120, exit=True)
        try:
            r = world.run_plan(plan)
        except Exception as e:  # noqa
            res["harness_errors"].append({"index": i, "error": "%s: %s" % (type(e).__name__, e)})
            continue
        finally:
            faulthandler.cancel_dump_traceback_later()
        res["done"] += 1
        tag = plan["sweep"]
        res["by_kind"][tag] = res["by_kind"].get(tag, 0) + 1
        res["fired"] += sum(r["faults_fired"].values())
        for k, v in r["probes"].items():
            if k in ("load_failed_under_fault", "load_survived_fault"):
                key = tag + ":" + k
                res["outcome"][key] = res["outcome"].get(key, 0) + v
        if r["violations"]:
            if len(res["violations"]) < 20:
                res["violations"].append({"index": i, "plan": plan, "violations": r["violations"][:3]})
        if len(res["samples"]) < 1 and i % 1000 == start:
            res["samples"].append({"fault": plan["faults"][0], "loads": [
                "%s(%s)" % (o["loader"], o["name"]) for o in plan["programs"][0]]})
    with open(outfile, "w") as f:
        json.dump(res, f)
    return 0


def run_sweep(tier, jobs, cap_s):
    os.makedirs(OUT, exist_ok=True)
    tmpd = os.path.join(OUT, "tmp-sweep-%d" % os.getpid())
    os.makedirs(tmpd, exist_ok=True)
    deadline = time.time() + cap_s
    procs = []
    for j in range(jobs):
        outf = os.path.join(tmpd, "s%d.json" % j)
        cmd = [sys.executable, "-m", "wavesim.run", "worker_sweep", tier, str(j), str(jobs),
               repr(deadline), outf]
        procs.append((subprocess.Popen(cmd, cwd=env.VERIF, env=env.pinned_env(
            {"WAVESIM_REEXEC": "1"}), stdout=subprocess.PIPE, stderr=subprocess.STDOUT), outf))
    tot = {"total": 0, "done": 0, "by_kind": {}, "outcome": {}, "violations": [],
           "harness_errors": [], "fired": 0, "stopped_early": False, "samples": []}
    errors = []
    for p, outf in procs:
        out, _ = p.communicate()
        if p.returncode != 0 or not os.path.exists(outf):
            errors.append("sweep worker exit %s: %s" % (p.returncode, (out or b"")[-1000:].decode(
                "utf8", "replace")))
            continue
        with open(outf) as f:
            a = json.load(f)
        os.remove(outf)
        tot["total"] = a["total"]
        tot["done"] += a["done"]
        tot["fired"] += a["fired"]
        _addd(tot["by_kind"], a["by_kind"])
        _addd(tot["outcome"], a["outcome"])
        tot["violations"].extend(a["violations"])
        tot["harness_errors"].extend(a["harness_errors"])
        tot["stopped_early"] = tot["stopped_early"] or a["stopped_early"]
        tot["samples"].extend(a["samples"][:1])
    try:
        os.rmdir(tmpd)
    except OSError:
        pass
    return tot, errors


def new_agg():
    return {"runs": 0, "nontrivial": 0, "violating_runs": 0, "violations": [], "steps": 0,
            "lines": 0, "io_events": 0, "switches": 0, "switches_in_lib": 0, "ops": 0,
            "skipped": 0, "retries": 0, "blocked": 0, "shared_calls": 0,
            "faults_fired": {}, "faults_armed": 0, "fault_free_runs": 0,
            "op_kinds": {}, "outcomes": {}, "probes": {}, "ref": {},
            "sites": set(), "fault_sites": set(), "plan_digests": set(),
            "interleavings": set(), "switch_traces": set(), "fingerprints": {},
            "samples": [], "harness_errors": [], "policies": {}, "clients": {}}


def _addd(d, src):
    for k, v in src.items():
        d[k] = d.get(k, 0) + v


def merge_run(agg, plan, res):
    st = res["stats"]
    agg["steps"] += st["steps"]
    agg["lines"] += st["lines"]
    agg["io_events"] += st["io_events"]
    agg["switches"] += st["switches"]
    agg["switches_in_lib"] += st["switches_in_lib"]
    agg["ops"] += st["ops"]
    agg["skipped"] += st["skipped"]
    agg["retries"] += st["retries"]
    agg["blocked"] += st["blocked"]
    agg["shared_calls"] += st["calls_on_shared_instance"]
    _addd(agg["faults_fired"], res["faults_fired"])
    agg["faults_armed"] += len(plan.get("faults", []))
    if not plan.get("faults"):
        agg["fault_free_runs"] += 1
    _addd(agg["op_kinds"], res["op_kinds"])
    _addd(agg["outcomes"], res["outcomes"])
    _addd(agg["probes"], res["probes"])
    _addd(agg["ref"], res["ref"])
    agg["sites"].update(res["sites"])
    agg["fault_sites"].update(res["fault_sites"])
    pd = hashlib.sha256(json.dumps(plan, sort_keys=True).encode()).hexdigest()[:16]
    fired = sum(res["faults_fired"].values())
    multi = any(v >= 2 for v in _calls_per_slot(plan).values())
    if st["switches_in_lib"] > 0 or fired > 0 or multi:
        if pd not in agg["plan_digests"]:
            agg["nontrivial"] += 1
    agg["plan_digests"].add(pd)
    agg["interleavings"].add(res["interleaving"])
    agg["switch_traces"].add(res["switch_trace"])
    agg["fingerprints"][str(plan["seed"])] = res["fingerprint"]
    kn = plan["knobs"]
    agg["policies"][kn["policy"]] = agg["policies"].get(kn["policy"], 0) + 1
    agg["clients"][str(kn["n_clients"])] = agg["clients"].get(str(kn["n_clients"]), 0) + 1
    if len(agg["samples"]) < 2:
        agg["samples"].append({"seed": plan["seed"], "knobs": kn, "slots": plan["slots"],
                               "programs": [[_brief(o) for o in p] for p in plan["programs"]],
                               "faults": plan["faults"], "fingerprint": res["fingerprint"],
                               "context_switches": st["switches"], "steps": st["steps"]})
    if res["violations"]:
        agg["violating_runs"] += 1
        if len(agg["violations"]) < 40:
            agg["violations"].append({"seed": plan["seed"], "violations": res["violations"][:5]})


def _calls_per_slot(plan):
    d = {}
    for p in plan["programs"]:
        for o in p:
            if o["op"] in ("call", "inverse", "roundtrip"):
                d[o["slot"]] = d.get(o["slot"], 0) + 1
    return d


def _brief(o):
    k = o["op"]
    if k == "construct":
        return "construct s%d %s" % (o["slot"], json.dumps(o["params"], sort_keys=True))
    if k == "call":
        a = o["arg"]
        return "call s%d %s %s %s gm=%s rg=%d -> %s" % (
            o["slot"], a["shape"], a["dtype"], a["layout"], o["grad_mode"],
            int(o["requires_grad"]), o["out"])
    if k == "roundtrip":
        a = o["arg"]
        return "roundtrip s%d->s%d %s %s %s gm=%s rg=%d -> %s" % (
            o["slot"], o["slot2"], a["shape"], a["dtype"], a["layout"], o["grad_mode"],
            int(o["requires_grad"]), o["out"])
    if k == "inverse":
        return "inverse s%d src=%s mask=%s perturb=%s -> %s" % (
            o["slot"], o["src"], o["mask"], o["perturb"], o["out"])
    if k == "backward":
        return "backward %s retain=%d" % (o["handle"], int(o["retain"]))
    if k == "load":
        return "load %s(%r)" % (o["loader"], o["name"])
    if k == "func" and o["fn"] == "prepfn":
        return "func filter-helper #%d(arrays of %s(%r) as loaded)" % (o["pick"], o["loader"], o["name"])
    if k == "func":
        return "func %s %s %s prep=%d" % (o["fn"], o["wave"], o["mode"], int(o["prep"]))
    rest = {x: y for x, y in o.items() if x not in ("op", "id")}
    return "%s %s" % (k, json.dumps(rest, sort_keys=True))


# ---------------------------------------------------------------- check

def run_batch(prof, base, total, jobs, cap_s, tag, tier="quick"):
    os.makedirs(OUT, exist_ok=True)
    tmpd = os.path.join(OUT, "tmp-%s-%d" % (tag, os.getpid()))
    os.makedirs(tmpd, exist_ok=True)
    deadline = time.time() + cap_s
    procs = []
    per = (total + jobs - 1) // jobs
    for j in range(jobs):
        outf = os.path.join(tmpd, "w%d.json" % j)
        cnt = len(range(j, total, jobs))
        cmd = [sys.executable, "-m", "wavesim.run", "worker", prof, str(base), str(j),
               str(jobs), str(cnt), repr(deadline), outf, tier]
        procs.append((subprocess.Popen(cmd, cwd=env.VERIF, env=env.pinned_env(
            {"WAVESIM_REEXEC": "1"}), stdout=subprocess.PIPE, stderr=subprocess.STDOUT), outf))
    agg = new_agg()
    errors = []
    cmds = {}
    for j, (p, outf) in enumerate(procs):
        cmds[outf] = [sys.executable, "-m", "wavesim.run", "worker", prof, str(base), str(j),
                      str(jobs), str(len(range(j, total, jobs))), repr(deadline), outf, tier]
    for p, outf in procs:
        try:
            out, _ = p.communicate(timeout=cap_s + 600)
        except subprocess.TimeoutExpired:
            p.kill()
            out, _ = p.communicate()
            errors.append("worker timed out")
        if p.returncode is not None and p.returncode < 0 and not os.path.exists(outf):
            # killed by a signal (the interpreter itself crashed): one fresh
            # process gets the same seeds again; a crash that is a function of
            # the seeds will repeat and is then reported
            print("NOTE: worker died with signal %d; its seeds are run again in a fresh process"
                  % -p.returncode)
            p = subprocess.Popen(cmds[outf], cwd=env.VERIF, env=env.pinned_env(
                {"WAVESIM_REEXEC": "1"}), stdout=subprocess.PIPE, stderr=subprocess.STDOUT)
            try:
                out, _ = p.communicate(timeout=cap_s + 600)
            except subprocess.TimeoutExpired:
                p.kill()
                out, _ = p.communicate()
        if p.returncode != 0 or not os.path.exists(outf):
            errors.append("worker exit %s: %s" % (p.returncode, (out or b"")[-1500:].decode(
                "utf8", "replace")))
            continue
        with open(outf) as f:
            a = json.load(f)
        os.remove(outf)
        merge_agg(agg, a)
    try:
        os.rmdir(tmpd)
    except OSError:
        pass
    return agg, errors


def merge_agg(agg, a):
    for k in ("runs", "violating_runs", "steps", "lines", "io_events", "switches",
              "switches_in_lib", "ops", "skipped", "retries", "blocked", "shared_calls",
              "faults_armed", "fault_free_runs"):
        agg[k] += a[k]
    for k in ("faults_fired", "op_kinds", "outcomes", "probes", "ref", "policies", "clients"):
        _addd(agg[k], a[k])
    for k in ("sites", "fault_sites", "interleavings", "switch_traces"):
        agg[k].update(a[k])
    new = set(a["plan_digests"]) - agg["plan_digests"]
    agg["plan_digests"].update(a["plan_digests"])
    agg["nontrivial"] += a["nontrivial"]     # seeds are disjoint across workers
    agg["fingerprints"].update(a["fingerprints"])
    agg["violations"].extend(a["violations"])
    agg["harness_errors"].extend(a["harness_errors"])
    if len(agg["samples"]) < 3:
        agg["samples"].extend(a["samples"][:1])
    if a.get("stopped_early"):
        agg["stopped_early"] = True
    agg["wall_worker_s"] = agg.get("wall_worker_s", 0.0) + a["wall_s"]


def load_known():
    """known_findings.txt: lines 'open: property=<id> key=<invariant>|<family>|<op> <what>'
    and 'fixed: property=<id> <commit> <what>'. Only 'open' lines suppress."""
    opened = []
    if os.path.exists(KNOWN):
        for ln in open(KNOWN):
            ln = ln.strip()
            if ln.startswith("open:"):
                parts = ln.split()
                d = {"line": ln}
                for p in parts[1:3]:
                    if "=" in p:
                        k, v = p.split("=", 1)
                        d[k] = v
                opened.append(d)
    return opened


def finding_key(plan, v):
    """Identity of a (minimised) violation: invariant | module family or loader
    | operation kind | construction essentials of the failing operation."""
    fam = v.get("family") or ""
    ess = ""
    if isinstance(v.get("op_id"), str):      # canaries carry their tag as op id
        ess = v["op_id"]
    for p in plan["programs"]:
        for o in p:
            if o["id"] == v.get("op_id"):
                if "slot" in o:
                    fam = plan["slots"][o["slot"]]
                elif o["op"] == "load":
                    fam = "%s(%s)" % (o["loader"], o["name"])
                elif o["op"] == "func":
                    fam = o["fn"]
                if o["op"] == "inverse":
                    m = o.get("mask") or ["keep"]
                    ess = "none-level=%d,zerodim-level=%d" % (int("none" in m), int("zerodim" in m))
    return "|".join([v["invariant"], fam, str(v.get("op")), ess])


def check(argv):
    from . import gen, shrink, world, tables
    prop = argv[0]
    tier = os.environ.get("VERIF_TIER", "quick")
    jobs = jobs_default()
    total = None
    i = 1
    while i < len(argv):
        if argv[i] == "--tier":
            tier = argv[i + 1]
            i += 2
        elif argv[i] == "--runs":
            total = int(argv[i + 1])
            i += 2
        elif argv[i] == "--jobs":
            jobs = int(argv[i + 1])
            i += 2
        else:
            raise SystemExit("unknown option " + argv[i])
    if prop not in ("C15", "C16", "C18"):
        raise SystemExit("no check for " + prop)
    cfg = TIERS[tier]
    total = total or cfg[prop]
    seed = int(os.environ.get("VERIF_SEED", "0") or 0)
    base = seed * 1000003
    t0 = time.time()
    static = None
    violations_out = []
    if prop == "C18":
        n, fails_, samples = tables.static_check()
        static = {"obligations": n, "failures": fails_[:20], "samples": samples}
    agg, errors = run_batch(prop, base, total, jobs, cfg["cap_s"], prop, tier)
    sweep = None
    if prop == "C18" and not errors:
        sweep, e2 = run_sweep(tier, jobs, cfg["cap_s"])
        errors += e2
        for h in sweep["harness_errors"][:3]:
            errors.append("sweep plan %s: %s" % (h["index"], h["error"]))
        static["sweep"] = sweep
    if errors or agg["harness_errors"]:
        for e in errors:
            print("HARNESS-ERROR:", e)
        for e in agg["harness_errors"][:5]:
            print("HARNESS-ERROR: seed %s %s\n%s" % (e["seed"], e["error"], e["trace"]))
        write_evidence(prop, tier, seed, agg, static, [], time.time() - t0, errors=True)
        return 2
    # ---- determinism audit: a sample of this batch's seeds re-executed alone in
    # fresh interpreters must give the same fingerprints as inside the workers
    # (a mismatch is a harness error, never a verdict).  Same PYTHONHASHSEED as
    # the workers: the harness's own independence of the hash seed is proved by
    # `selftest --full` on the pinned tree; here a harmless set iteration added
    # to the library must not be mistaken for non-determinism.
    from . import selftest
    all_seeds = sorted(int(k) for k in agg["fingerprints"])
    n_audit = 12 if tier == "quick" else 160
    step = max(1, len(all_seeds) // n_audit)
    sample = all_seeds[::step][:n_audit]
    audit = {"seeds_rechecked": len(sample), "mismatches": 0}
    if sample:
        chunks = [sample[i::jobs] for i in range(min(jobs, len(sample)))]
        procs = []
        for ch in chunks:
            cmd = [sys.executable, "-m", "wavesim.run", "selftest", "--fps", prop + ":" + tier] + \
                [str(x) for x in ch]
            procs.append(subprocess.Popen(cmd, cwd=env.VERIF, env=env.pinned_env(
                {"PYTHONHASHSEED": "0", "WAVESIM_REEXEC": "1"}), stdout=subprocess.PIPE,
                stderr=subprocess.STDOUT))
        for pr in procs:
            out, _ = pr.communicate()
            got = None
            for ln in out.decode("utf8", "replace").splitlines():
                if ln.startswith("FPS "):
                    got = json.loads(ln[4:])
            if got is None:
                print("HARNESS-ERROR: determinism audit child failed: " + out.decode("utf8", "replace")[-500:])
                write_evidence(prop, tier, seed, agg, static, [], time.time() - t0, errors=True)
                return 2
            for k, v in got.items():
                if agg["fingerprints"].get(k) != v:
                    audit["mismatches"] += 1
                    print("HARNESS-ERROR: seed %s is not reproducible (fingerprint in a fresh "
                          "interpreter differs from the one inside the worker)" % k)
    agg["determinism_audit"] = audit
    if audit["mismatches"]:
        write_evidence(prop, tier, seed, agg, static, [], time.time() - t0, errors=True)
        return 2
    # ---- violations: minimise, write replay, confirm in a fresh process
    known = load_known()
    sigs = {}
    for item in agg["violations"]:
        for v in item["violations"]:
            sigs.setdefault((v["property"], v["invariant"]), []).append(item["seed"])
    reported = 0
    known_hits = []
    os.makedirs(os.path.join(OUT, "replays"), exist_ok=True)
    for sig, seeds in sorted(sigs.items()):
        sd = min(seeds)
        plan = gen.gen_plan(prop, sd, tier)
        res = world.run_plan(plan)
        vs = [v for v in res["violations"] if (v["property"], v["invariant"]) == sig]
        if not vs:
            print("HARNESS-ERROR: violation %s of seed %d did not reproduce in the parent" % (sig, sd))
            write_evidence(prop, tier, seed, agg, static, [], time.time() - t0, errors=True)
            return 2
        small, sst = shrink.shrink(plan, res, sig, cfg["shrink_s"])
        r2 = world.run_plan(small)
        v2 = [v for v in r2["violations"] if (v["property"], v["invariant"]) == sig]
        use, ures, uv = (small, r2, v2[0]) if v2 else (plan, res, vs[0])
        path = os.path.join(OUT, "replays", "%s-%s-%d.json" % (prop, sig[1], sd))
        doc = {"replay_version": 1, "property": prop, "invariant": sig[1], "seed": sd,
               "message": uv["message"], "shrink": sst, "fingerprint": ures["fingerprint"],
               "plan": use}
        with open(path, "w") as f:
            json.dump(doc, f, indent=1)
        # fresh interpreter must reproduce
        rc = subprocess.run([sys.executable, "-m", "wavesim.run", "replay", path], cwd=env.VERIF,
                            env=env.pinned_env({"WAVESIM_REEXEC": "1"}),
                            stdout=subprocess.PIPE, stderr=subprocess.STDOUT)
        if rc.returncode != 1 and use is small:
            doc["plan"] = plan
            doc["shrink"] = {"explicit": False, "note": "minimised plan did not replay in a fresh process"}
            doc["fingerprint"] = res["fingerprint"]
            with open(path, "w") as f:
                json.dump(doc, f, indent=1)
            uv = vs[0]
            use = plan
        key = finding_key(use, uv)
        hit = [k for k in known if k.get("property") == prop and k.get("key") == key]
        if hit:
            known_hits.append((hit[0], uv))
            continue
        reported += 1
        violations_out.append({"invariant": sig[1], "seed": sd, "replay": path, "key": key,
                               "message": uv["message"], "seeds_failing": len(seeds)})
        print("VIOLATION property=%s replay=%s" % (prop, path))
        print("  invariant=%s seed=%d key=%s\n  %s" % (sig[1], sd, key, uv["message"]))
        print("  minimised history (%d ops, %d faults, %d forced switches):" % (
            sum(len(p) for p in use["programs"]), len(use.get("faults", [])),
            len(use.get("schedule") or [])))
        for c, prog in enumerate(use["programs"]):
            for o in prog:
                print("    client %d  #%s  %s" % (c, o["id"], _brief(o)[:200]))
        for f in use.get("faults", []):
            print("    fault  %s" % json.dumps(f, sort_keys=True))
        for sw in (use.get("schedule") or [])[:12]:
            print("    switch at client %s op #%s decision %s -> client %s" % (
                sw["at"][0], sw["at"][1], sw["at"][2], sw["to"]))
    if sweep and sweep["violations"]:
        seen = set()
        for item in sweep["violations"]:
            v = item["violations"][0]
            tag = (v["invariant"], item["plan"]["sweep"])
            if tag in seen:
                continue
            seen.add(tag)
            path = os.path.join(OUT, "replays", "%s-sweep-%s-%s-%d.json" % (
                prop, v["invariant"], item["plan"]["sweep"], item["index"]))
            with open(path, "w") as f:
                json.dump({"replay_version": 1, "property": prop, "invariant": v["invariant"],
                           "seed": item["plan"]["seed"], "message": v["message"],
                           "shrink": {"note": "enumerated single-fault plan, already minimal"},
                           "plan": item["plan"]}, f, indent=1)
            reported += 1
            violations_out.append({"invariant": v["invariant"], "replay": path,
                                   "message": v["message"], "sweep": item["plan"]["sweep"]})
            print("VIOLATION property=%s replay=%s" % (prop, path))
            print("  invariant=%s (single-fault enumeration, %s %s)\n  %s" % (
                v["invariant"], item["plan"]["sweep"], json.dumps(item["plan"]["faults"][0]), v["message"]))
    if static and static["failures"]:
        path = os.path.join(OUT, "replays", "%s-static.json" % prop)
        with open(path, "w") as f:
            json.dump({"replay_version": 1, "property": prop, "invariant": "T-static",
                       "static": True, "failures": static["failures"]}, f, indent=1)
        reported += 1
        violations_out.append({"invariant": "T-static", "replay": path,
                               "message": static["failures"][0]})
        print("VIOLATION property=%s replay=%s" % (prop, path))
        for m in static["failures"][:8]:
            print("  " + m)
    for k, uv in known_hits:
        print("KNOWN-FINDING: property=%s %s" % (prop, k["line"]))
    wall = time.time() - t0
    write_evidence(prop, tier, seed, agg, static, violations_out, wall)
    print("%s %s: %d runs, %d steps, %d context switches (%d inside library frames), faults fired %s, "
          "%d violating runs, %.1fs" % (prop, tier, agg["runs"], agg["steps"], agg["switches"],
                                       agg["switches_in_lib"], json.dumps(agg["faults_fired"], sort_keys=True),
                                       agg["violating_runs"], wall))
    return 1 if reported else 0


RULES = {
    "C15": "one evaluation = one simulated run (seed -> plan: 1-4 client threads, shared module "
           "slots, 3-30 operations, 0-3 faults, one scheduling policy) executed under the baton "
           "scheduler and judged against the history-free reference. distinct = distinct plan "
           "digest; non-trivial = at least one context switch taken inside a library frame, or at "
           "least one fault that actually fired, or two or more calls on one module slot.",
    "C16": "one evaluation = one simulated run with the conversion-heavy op mix (construct under "
           "default dtype d0, .double()/.float()/.to(), default-dtype flips, restarts, calls); "
           "distinct/non-trivial as for C15.",
    "C18": "one evaluation = one simulated run of loader calls and table-consuming constructors "
           "by 1-4 client threads with stream faults; plus, once per check, the exhaustive static "
           "enumeration (all shipped tables x all loader entry points x 2 loads x 2 orders). "
           "distinct = distinct plan digest; non-trivial = a context switch inside a library "
           "frame or a fired fault or >=2 calls on one slot.",
}


def write_evidence(prop, tier, seed, agg, static, violations, wall, errors=False):
    os.makedirs(EVID, exist_ok=True)
    runs = max(1, agg["runs"])
    armed = max(1, agg["faults_armed"])
    cov = {
        "evaluations": agg["runs"],
        "distinct_nontrivial": agg["nontrivial"],
        "rule": RULES[prop],
        "samples": agg["samples"][:3],
        "exhaustive": False,
        "simulated_runs": agg["runs"],
        "runs_per_hour": int(agg["runs"] / max(wall, 1e-6) * 3600),
        "seeds": {"base": seed * 1000003, "count": agg["runs"],
                  "derivation": "run i uses seed VERIF_SEED*1000003 + i"},
        "simulated_time": {"note": "the library has no clock; simulated time is the scheduler "
                                   "step count", "scheduler_steps": agg["steps"],
                           "library_lines_traced": agg["lines"], "stream_events": agg["io_events"]},
        "context_switches": agg["switches"],
        "context_switches_inside_library_frames": agg["switches_in_lib"],
        "distinct_op_level_interleavings": len(agg["interleavings"]),
        "distinct_line_level_switch_traces": len(agg["switch_traces"]),
        "distinct_plans": len(agg["plan_digests"]),
        "faults_fired_by_kind": agg["faults_fired"],
        "faults_armed": agg["faults_armed"],
        "fault_fire_rate": round(sum(agg["faults_fired"].values()) / armed, 3),
        "fault_free_runs": agg["fault_free_runs"],
        "fault_site_coverage": {"library_line_sites_total_in_functions": library_line_sites(),
                                "library_sites_executed": len(agg["sites"]),
                                "sites_with_a_fault_delivered": len(agg["fault_sites"])},
        "operations": agg["op_kinds"],
        "outcomes": agg["outcomes"],
        "retries_after_fault": agg["retries"],
        "ops_blocked_by_scheduling_constraints": agg["blocked"],
        "calls_started_while_another_call_on_same_instance_in_flight": agg["shared_calls"],
        "reference_phase": agg["ref"],
        "probes": agg["probes"],
        "policies": agg["policies"],
        "clients_per_run": agg["clients"],
        "components": COMPONENTS,
        "determinism_audit": agg.get("determinism_audit", {}),
        "stopped_early_at_wall_cap": bool(agg.get("stopped_early")),
        "fingerprint_of_fingerprints": hashlib.sha256(json.dumps(
            agg["fingerprints"], sort_keys=True).encode()).hexdigest(),
    }
    if static is not None:
        cov["static_enumeration"] = {"exhaustive": True, "obligations": static["obligations"],
                                     "failures": len(static["failures"]),
                                     "samples": static["samples"]}
        sw = static.get("sweep")
        if sw:
            cov["single_fault_enumeration"] = {
                "what": "one fault inside the first load of a table (open error x3; EIO at "
                        "every stream call; a transient EINTR/ETIMEDOUT/EAGAIN condition starting at "
                        "every stream call and lasting 2/3/5 consecutive reads; truncation at byte "
                        "offsets; inversion of bit 0 and 7 of bytes), then fault-free loads through every entry point + every table",
                "exhaustive": tier == "thorough" and not sw["stopped_early"],
                "sampling": "every offset" if tier == "thorough" else "every 41st offset / 7th read index",
                "plans_enumerated": sw["total"], "plans_run": sw["done"], "faults_fired": sw["fired"],
                "by_kind": sw["by_kind"], "faulted_load_outcomes": sw["outcome"],
                "violations": len(sw["violations"]), "samples": sw["samples"][:2]}
    if violations:
        cov["violations_reported"] = violations
    if errors:
        cov["harness_errors"] = True
    doc = {"property_id": prop, "tier": tier, "seed": seed, "level": "exploration",
           "coverage": cov,
           "assumptions": [
               "CPU only; intra-op threading pinned to 1 so that bitwise comparison is exact",
               "pre-emption granularity is the library source line (plus every call on the "
               "simulated stream); torch/numpy internals between two library lines are atomic",
               "the autograd graph of a call is used only by the client that created it",
               "sampling: a clean batch is evidence, not proof"],
           "wall_s": round(wall, 2), "violations": len(violations)}
    with open(os.path.join(EVID, "%s.json" % prop), "w") as f:
        json.dump(doc, f, indent=1, sort_keys=True)


# ---------------------------------------------------------------- replay

def replay(argv):
    from . import world
    path = argv[0]
    with open(path) as f:
        doc = json.load(f)
    if doc.get("static"):
        from . import tables
        n, fails_, _ = tables.static_check()
        for m in fails_[:10]:
            print("  " + m)
        if fails_:
            print("VIOLATION property=%s replay=%s" % (doc["property"], path))
            return 1
        print("no violation on replay")
        return 0
    res = world.run_plan(doc["plan"])
    sig = (doc["property"], doc["invariant"])
    hit = [v for v in res["violations"] if (v["property"], v["invariant"]) == sig]
    print("fingerprint %s (recorded %s)" % (res["fingerprint"], doc.get("fingerprint")))
    if hit:
        print("VIOLATION property=%s replay=%s" % (doc["property"], path))
        print("  invariant=%s: %s" % (hit[0]["invariant"], hit[0]["message"]))
        return 1
    for v in res["violations"]:
        print("  other violation: %s %s" % (v["invariant"], v["message"]))
    print("no violation on replay")
    return 0


# ---------------------------------------------------------------- misc

def one(argv):
    from . import gen, world
    prof, seed = argv[0], int(argv[1])
    plan = gen.gen_plan(prof, seed)
    if "--plan" in argv:
        print(json.dumps(plan, indent=1))
    t = time.time()
    res = world.run_plan(plan)
    res.pop("sites")
    res["wall"] = time.time() - t
    res["schedule"] = len(res["schedule"])
    print(json.dumps(res, indent=1, default=str))
    return 1 if res["violations"] else 0


def many(argv):
    from . import gen, world
    prof, start, count = argv[0], int(argv[1]), int(argv[2])
    tier = argv[3] if len(argv) > 3 else "quick"
    agg = new_agg()
    t0 = time.time()
    for seed in range(start, start + count):
        plan = gen.gen_plan(prof, seed, tier)
        res = world.run_plan(plan)
        merge_run(agg, plan, res)
        agg["runs"] += 1
        if res["violations"]:
            print("seed", seed, json.dumps(res["violations"][:3], indent=1)[:1500])
    print({"runs": agg["runs"], "violating": agg["violating_runs"], "wall": round(time.time() - t0, 1)},
          agg["op_kinds"], agg["outcomes"], agg["faults_fired"], agg["probes"], agg["ref"])
    return 0


def main(argv):
    cmd = argv[0]
    if cmd == "worker":
        return worker(argv[1:])
    if cmd == "worker_sweep":
        return worker_sweep(argv[1:])
    if cmd == "check":
        return check(argv[1:])
    if cmd == "replay":
        return replay(argv[1:])
    if cmd == "one":
        return one(argv[1:])
    if cmd == "many":
        return many(argv[1:])
    if cmd == "selftest":
        from . import selftest
        return selftest.main(argv[1:])
    raise SystemExit("unknown command " + cmd)
